//! Conversion entry points (C14, C15, C16, C19).
//!
//! `codec`: stdin = TLC's enumeration of short code-unit sequences with what the Unicode standard
//! says about each (spec/MC_Codec.tla); every line is replayed on from_utf8 / from_utf8_lossy /
//! from_utf16 / from_utf16_lossy, on the serde visitors and on std's counterparts.
//! `conv`: performs conversions on the real crate and records one ndjson record each for the TLC
//! monitor spec/Convert.tla (decimal oracle, storage predicate, Display pieces, floats, serde,
//! arbitrary).

use crate::drive::Rng;
use crate::shim;
use lean_string::{LeanString, ToLeanString};
use serde_json::{Value, json};
use std::collections::BTreeMap;
use std::io::{BufRead, Write};

fn obs(s: &LeanString, before: (u64, u64, u64)) -> (Vec<u8>, bool, u64, usize) {
    let st = shim::end_call(before);
    // requests to the global allocator during the measured call (hidden temporaries) count as allocations of the call
    (s.as_bytes().to_vec(), s.is_heap_allocated(), st.d_a + crate::gate::take_extra(), s.capacity())
}

// ------------------------------------------------------------------------------------------ serde
#[cfg(feature = "ls-serde")]
mod sd {
    use lean_string::LeanString;
    use serde::de::{self, Visitor};
    use serde::ser::{self, Impossible};
    use std::fmt;

    #[derive(Debug)]
    pub struct Msg(pub String);
    impl fmt::Display for Msg {
        fn fmt(&self, f: &mut fmt::Formatter<'_>) -> fmt::Result {
            f.write_str(&self.0)
        }
    }
    impl std::error::Error for Msg {}
    impl ser::Error for Msg {
        fn custom<T: fmt::Display>(m: T) -> Self {
            Msg(m.to_string())
        }
    }
    impl de::Error for Msg {
        fn custom<T: fmt::Display>(m: T) -> Self {
            Msg(m.to_string())
        }
    }

    /// records which Serializer methods a value calls, with the string / bytes payload
    /// records every Serializer call; the second field is what `is_human_readable()` answers (formats differ in that, and an
    /// implementation may branch on it)
    pub struct Rec<'a>(pub &'a mut Vec<(String, Vec<u8>)>, pub bool);
    macro_rules! prim {
        ($($f:ident $t:ty),*) => {$(
            fn $f(self, _v: $t) -> Result<(), Msg> { self.0.push((stringify!($f).to_string(), vec![])); Ok(()) }
        )*};
    }
    impl<'a> ser::Serializer for Rec<'a> {
        type Ok = ();
        type Error = Msg;
        type SerializeSeq = Impossible<(), Msg>;
        type SerializeTuple = Impossible<(), Msg>;
        type SerializeTupleStruct = Impossible<(), Msg>;
        type SerializeTupleVariant = Impossible<(), Msg>;
        type SerializeMap = Impossible<(), Msg>;
        type SerializeStruct = Impossible<(), Msg>;
        type SerializeStructVariant = Impossible<(), Msg>;
        prim!(serialize_bool bool, serialize_i8 i8, serialize_i16 i16, serialize_i32 i32, serialize_i64 i64, serialize_u8 u8, serialize_u16 u16,
              serialize_u32 u32, serialize_u64 u64, serialize_f32 f32, serialize_f64 f64, serialize_char char);
        fn is_human_readable(&self) -> bool {
            self.1
        }
        fn serialize_str(self, v: &str) -> Result<(), Msg> {
            self.0.push(("str".into(), v.as_bytes().to_vec()));
            Ok(())
        }
        fn serialize_bytes(self, v: &[u8]) -> Result<(), Msg> {
            self.0.push(("bytes".into(), v.to_vec()));
            Ok(())
        }
        fn serialize_none(self) -> Result<(), Msg> {
            self.0.push(("none".into(), vec![]));
            Ok(())
        }
        fn serialize_some<T: ?Sized + ser::Serialize>(self, _: &T) -> Result<(), Msg> {
            self.0.push(("some".into(), vec![]));
            Ok(())
        }
        fn serialize_unit(self) -> Result<(), Msg> {
            self.0.push(("unit".into(), vec![]));
            Ok(())
        }
        fn serialize_unit_struct(self, _: &'static str) -> Result<(), Msg> {
            self.0.push(("unit_struct".into(), vec![]));
            Ok(())
        }
        fn serialize_unit_variant(self, _: &'static str, _: u32, _: &'static str) -> Result<(), Msg> {
            self.0.push(("unit_variant".into(), vec![]));
            Ok(())
        }
        fn serialize_newtype_struct<T: ?Sized + ser::Serialize>(self, _: &'static str, _: &T) -> Result<(), Msg> {
            self.0.push(("newtype_struct".into(), vec![]));
            Ok(())
        }
        fn serialize_newtype_variant<T: ?Sized + ser::Serialize>(self, _: &'static str, _: u32, _: &'static str, _: &T) -> Result<(), Msg> {
            self.0.push(("newtype_variant".into(), vec![]));
            Ok(())
        }
        fn serialize_seq(self, _: Option<usize>) -> Result<Self::SerializeSeq, Msg> {
            self.0.push(("seq".into(), vec![]));
            Err(Msg("seq".into()))
        }
        fn serialize_tuple(self, _: usize) -> Result<Self::SerializeTuple, Msg> {
            self.0.push(("tuple".into(), vec![]));
            Err(Msg("tuple".into()))
        }
        fn serialize_tuple_struct(self, _: &'static str, _: usize) -> Result<Self::SerializeTupleStruct, Msg> {
            self.0.push(("tuple_struct".into(), vec![]));
            Err(Msg("tuple_struct".into()))
        }
        fn serialize_tuple_variant(self, _: &'static str, _: u32, _: &'static str, _: usize) -> Result<Self::SerializeTupleVariant, Msg> {
            self.0.push(("tuple_variant".into(), vec![]));
            Err(Msg("tuple_variant".into()))
        }
        fn serialize_map(self, _: Option<usize>) -> Result<Self::SerializeMap, Msg> {
            self.0.push(("map".into(), vec![]));
            Err(Msg("map".into()))
        }
        fn serialize_struct(self, _: &'static str, _: usize) -> Result<Self::SerializeStruct, Msg> {
            self.0.push(("struct".into(), vec![]));
            Err(Msg("struct".into()))
        }
        fn serialize_struct_variant(self, _: &'static str, _: u32, _: &'static str, _: usize) -> Result<Self::SerializeStructVariant, Msg> {
            self.0.push(("struct_variant".into(), vec![]));
            Err(Msg("struct_variant".into()))
        }
    }

    /// a Deserializer that feeds its input to ONE chosen visitor method
    pub struct Feed<'de> {
        pub via: &'static str,
        pub input: &'de [u8],
        pub hr: bool,
    }
    impl<'de> de::Deserializer<'de> for Feed<'de> {
        type Error = Msg;
        fn is_human_readable(&self) -> bool {
            self.hr
        }
        fn deserialize_any<V: Visitor<'de>>(self, v: V) -> Result<V::Value, Msg> {
            LAST_HINT.with(|h| h.set("any"));
            self.feed(v)
        }
        // what the type ASKS the format for is part of being a transparent wrapper: a format may serve `deserialize_str`
        // and `deserialize_string` differently (a reader that cannot lend text serves `str` from a small scratch area)
        fn deserialize_str<V: Visitor<'de>>(self, v: V) -> Result<V::Value, Msg> {
            LAST_HINT.with(|h| h.set("str"));
            self.feed(v)
        }
        fn deserialize_string<V: Visitor<'de>>(self, v: V) -> Result<V::Value, Msg> {
            LAST_HINT.with(|h| h.set("string"));
            self.feed(v)
        }
        fn deserialize_bytes<V: Visitor<'de>>(self, v: V) -> Result<V::Value, Msg> {
            LAST_HINT.with(|h| h.set("bytes"));
            self.feed(v)
        }
        fn deserialize_byte_buf<V: Visitor<'de>>(self, v: V) -> Result<V::Value, Msg> {
            LAST_HINT.with(|h| h.set("byte_buf"));
            self.feed(v)
        }
        serde::forward_to_deserialize_any! {
            bool i8 i16 i32 i64 i128 u8 u16 u32 u64 u128 f32 f64 char option unit unit_struct newtype_struct seq tuple
            tuple_struct map struct enum identifier ignored_any
        }
    }
    thread_local! {
        pub static LAST_HINT: std::cell::Cell<&'static str> = const { std::cell::Cell::new("") };
    }
    impl<'de> Feed<'de> {
        fn feed<V: Visitor<'de>>(self, v: V) -> Result<V::Value, Msg> {
            match self.via {
                "str" => v.visit_str(std::str::from_utf8(self.input).unwrap()),
                "borrowed_str" => v.visit_borrowed_str(std::str::from_utf8(self.input).unwrap()),
                "string" => v.visit_string(String::from_utf8(self.input.to_vec()).unwrap()),
                "bytes" => v.visit_bytes(self.input),
                "borrowed_bytes" => v.visit_borrowed_bytes(self.input),
                "byte_buf" => v.visit_byte_buf(self.input.to_vec()),
                other => Err(Msg(format!("unknown via {other}"))),
            }
        }
    }
    /// which `deserialize_*` method the two types ask a format for: (LeanString, String)
    pub fn de_hints() -> (&'static str, &'static str) {
        let _ = <LeanString as serde::Deserialize>::deserialize(Feed { via: "str", input: b"x", hr: true });
        let a = LAST_HINT.with(|h| h.get());
        let _ = <String as serde::Deserialize>::deserialize(Feed { via: "str", input: b"x", hr: true });
        let b = LAST_HINT.with(|h| h.get());
        (a, b)
    }
    pub fn de_in_place_hints() -> (&'static str, &'static str) {
        let mut l = LeanString::new();
        let _ = <LeanString as serde::Deserialize>::deserialize_in_place(Feed { via: "str", input: b"x", hr: true }, &mut l);
        let a = LAST_HINT.with(|h| h.get());
        let mut s = String::new();
        let _ = <String as serde::Deserialize>::deserialize_in_place(Feed { via: "str", input: b"x", hr: true }, &mut s);
        let b = LAST_HINT.with(|h| h.get());
        (a, b)
    }

    pub fn ser_calls(s: &LeanString) -> Vec<(String, Vec<u8>)> {
        let mut v = vec![];
        for hr in [true, false] {
            v.push(("human_readable".to_string(), vec![hr as u8]));
            let _ = serde::Serialize::serialize(s, Rec(&mut v, hr));
        }
        v
    }
    pub fn ser_calls_std(s: &String) -> Vec<(String, Vec<u8>)> {
        let mut v = vec![];
        for hr in [true, false] {
            v.push(("human_readable".to_string(), vec![hr as u8]));
            let _ = serde::Serialize::serialize(s, Rec(&mut v, hr));
        }
        v
    }
    pub fn de_lean(via: &'static str, input: &[u8]) -> Result<LeanString, String> {
        // both kinds of format: the answers must not depend on what `is_human_readable()` says
        let a = <LeanString as serde::Deserialize>::deserialize(Feed { via, input, hr: true }).map_err(|e| e.0);
        let b = <LeanString as serde::Deserialize>::deserialize(Feed { via, input, hr: false }).map_err(|e| e.0);
        match (&a, &b) {
            (Ok(x), Ok(y)) if x == y => a,
            (Err(_), Err(_)) => a,
            _ => Err("human-readable and compact formats are treated differently".to_string()),
        }
    }
    /// `Deserialize::deserialize_in_place` into an existing value (what `Vec<T>` and derived impls use when they reuse a value):
    /// Ok(text afterwards) or Err; the destination's state before is the caller's choice
    pub fn de_in_place_lean(via: &'static str, input: &[u8], dest: &mut LeanString) -> Result<(), String> {
        <LeanString as serde::Deserialize>::deserialize_in_place(Feed { via, input, hr: true }, dest).map_err(|e| e.0)
    }
    pub fn de_in_place_std(via: &'static str, input: &[u8], dest: &mut String) -> Result<(), String> {
        <String as serde::Deserialize>::deserialize_in_place(Feed { via, input, hr: true }, dest).map_err(|e| e.0)
    }
    pub fn de_std(via: &'static str, input: &[u8]) -> Result<String, String> {
        <String as serde::Deserialize>::deserialize(Feed { via, input, hr: true }).map_err(|e| e.0)
    }
}

// ------------------------------------------------------------------------------------------ codec
fn bytes_of(v: &Value) -> Vec<u8> {
    v.as_array().map(|a| a.iter().map(|x| x.as_u64().unwrap() as u8).collect()).unwrap_or_default()
}

pub fn codec(out_dir: &str) -> i32 {
    std::fs::create_dir_all(out_dir).unwrap();
    let stdin = std::io::stdin();
    let mut tlc_tail: Vec<String> = vec![];
    let (mut n8, mut n16, mut checks, mut spec_errors) = (0u64, 0u64, 0u64, 0u64);
    let mut findings: Vec<Value> = vec![];
    let mut spec_samples: Vec<Value> = vec![];
    let mut samples: Vec<Value> = vec![];
    let mut kinds: BTreeMap<String, u64> = BTreeMap::new();
    let mut finding = |kind: &str, input: Value, expected: Value, got: Value, findings: &mut Vec<Value>, kinds: &mut BTreeMap<String, u64>| {
        *kinds.entry(kind.to_string()).or_default() += 1;
        if findings.len() < 60 {
            findings.push(json!({"kind":kind,"input":input,"expected":expected,"got":got}));
        }
    };
    const PAD_L: &[u8] = b"AAAAAAAAAAAAA";
    const PAD_R: &[u8] = b"ZZZ";
    // the input being decoded, written before every decoder run: if the code under test takes the process down,
    // bin/check finds here which input did it
    let pending_path = format!("{out_dir}/pending.json");
    let pending = std::fs::File::create(&pending_path).unwrap();
    let note_pending = |what: &str, inp: Value| {
        use std::os::unix::fs::FileExt;
        let mut s = json!({"what":what,"input":inp}).to_string();
        s.push('\n');
        let _ = pending.set_len(0);
        let _ = pending.write_all_at(s.as_bytes(), 0);
    };
    #[cfg(feature = "ls-serde")]
    {
        let (a, b) = sd::de_hints();
        if a != b {
            finding("de_hint", json!([]), json!(b), json!(a), &mut findings, &mut kinds);
        }
        let (a, b) = sd::de_in_place_hints();
        if a != b {
            finding("de_hint_in_place", json!([]), json!(b), json!(a), &mut findings, &mut kinds);
        }
    }
    for line in stdin.lock().lines() {
        let Ok(line) = line else { continue };
        if !line.starts_with('"') {
            if tlc_tail.len() > 100 {
                tlc_tail.remove(0);
            }
            tlc_tail.push(line);
            continue;
        }
        let Ok(inner) = serde_json::from_str::<String>(&line) else { continue };
        if let Some(j) = inner.strip_prefix("U8 ") {
            let v: Value = serde_json::from_str(j).unwrap();
            n8 += 1;
            let b = bytes_of(&v["b"]);
            let valid = v["v"] == true;
            let t = bytes_of(&v["t"]);
            if samples.len() < 3 && !valid && b.len() >= 3 {
                samples.push(json!({"bytes":b,"valid":valid,"lossy_text":String::from_utf8_lossy(&t)}));
            }
            // the specification against std (the oracle must be right before it judges the crate)
            if String::from_utf8(b.clone()).is_ok() != valid || String::from_utf8_lossy(&b).as_bytes() != &t[..] {
                spec_errors += 1;
                if spec_samples.len() < 5 {
                    spec_samples.push(json!({"bytes":b,"spec_valid":valid,"spec_lossy":t,"std_lossy":String::from_utf8_lossy(&b).as_bytes()}));
                }
                continue;
            }
            // bare; padded across the inline limit; and placed so that the sequence ends exactly at byte 15 / 16, or
            // begins exactly at byte 16 / 17 (the last inline byte doubles as the length tag)
            const A16: &[u8] = b"AAAAAAAAAAAAAAAA";
            let mut pads: Vec<(&[u8], &[u8])> = vec![(b"", b""), (PAD_L, PAD_R)];
            if !b.is_empty() {
                for end in [15usize, 16] {
                    if b.len() <= end {
                        pads.push((&A16[..end - b.len()], b""));
                    }
                }
                pads.push((&A16[..15], b""));
                pads.push((&A16[..16], b""));
            }
            // short sequences also behind long ASCII runs, ending / starting around the sizes a decoder might work in blocks of
            let long_run: Vec<u8> = vec![b'A'; 4100];
            let long_placements = std::env::var("LS_CODEC_SHORT").is_err();
            if long_placements && !b.is_empty() && b.len() <= 3 {
                for blk in [32usize, 64, 100, 128, 256, 512, 1000, 1024, 2048, 4096] {
                    for n in blk - 3..=blk + 1 {
                        pads.push((&long_run[..n], b"ZZ"));
                    }
                }
            }
            // long runs of the same short sequence (a decoder may batch its replacement characters or its copies): what the
            // repetition decodes to is not the repetition of what the sequence decodes to, so String is the oracle here
            if long_placements && !b.is_empty() && b.len() <= 2 {
                for k in [31usize, 32, 33, 63, 64, 65, 100, 127, 128, 129, 255, 256, 257, 1000] {
                    let inp: Vec<u8> = b.iter().copied().cycle().take(b.len() * k).collect();
                    let want = String::from_utf8_lossy(&inp);
                    checks += 1;
                    note_pending("utf8", json!(inp));
                    let l = LeanString::from_utf8_lossy(&inp);
                    if l.as_bytes() != want.as_bytes() {
                        finding("utf8_lossy", json!(inp), json!(want.as_bytes()), json!(l.as_bytes()), &mut findings, &mut kinds);
                    }
                    if LeanString::from_utf8(&inp).is_ok() != std::str::from_utf8(&inp).is_ok() {
                        finding("utf8", json!(inp), json!({"valid":std::str::from_utf8(&inp).is_ok()}), json!("differs"), &mut findings, &mut kinds);
                    }
                }
            }
            for (pad_l, pad_r) in pads {
                let (inp, exp): (Vec<u8>, Vec<u8>) = ([pad_l, &b, pad_r].concat(), [pad_l, &t, pad_r].concat());
                checks += 1;
                note_pending("utf8", json!(inp));
                let before = shim::begin_call(&[]);
                match LeanString::from_utf8(&inp) {
                    Ok(s) => {
                        if !valid || s.as_bytes() != &inp[..] {
                            finding("utf8", json!(inp), json!({"valid":valid}), json!({"ok":s.as_bytes()}), &mut findings, &mut kinds);
                        }
                    }
                    Err(_) => {
                        if valid {
                            finding("utf8", json!(inp), json!({"valid":valid}), json!("Err"), &mut findings, &mut kinds);
                        }
                    }
                }
                let l = LeanString::from_utf8_lossy(&inp);
                if l.as_bytes() != &exp[..] {
                    finding("utf8_lossy", json!(inp), json!(exp), json!(l.as_bytes()), &mut findings, &mut kinds);
                }
                drop(l);
                #[cfg(feature = "ls-serde")]
                {
                    for via in ["bytes", "borrowed_bytes", "byte_buf"] {
                        let r = sd::de_lean(via, &inp);
                        let rs = sd::de_std(via, &inp);
                        let good = match (&r, valid) {
                            (Ok(s), true) => s.as_bytes() == &inp[..],
                            (Err(_), false) => true,
                            _ => false,
                        };
                        if !good {
                            finding(&format!("de_{via}"), json!(inp), json!({"valid":valid}), json!(r.as_ref().map(|s| s.as_bytes().to_vec()).map_err(|e| e.clone())), &mut findings, &mut kinds);
                        }
                        if rs.is_ok() != valid {
                            spec_errors += 1;
                        }
                    }
                    // into an existing value: same outcome and same text as String, whatever the destination held and however it was stored
                    if pad_l.is_empty() && pad_r.is_empty() {
                        static OLD_STATIC: &str = "an old static text of the destination";
                        for via in ["bytes", "borrowed_bytes", "byte_buf", "str", "borrowed_str", "string"] {
                            if !valid && via.contains("str") {
                                continue;
                            }
                            for state in 0..5 {
                                let keep;
                                let (mut dl, mut ds): (LeanString, String) = match state {
                                    0 => (LeanString::new(), String::new()),
                                    1 => (LeanString::from("old"), String::from("old")),
                                    2 => (LeanString::from("an old text that lives on the heap"), String::from("an old text that lives on the heap")),
                                    3 => {
                                        let a = LeanString::from("an old text that lives on the heap");
                                        keep = a.clone();
                                        let _ = &keep;
                                        (a, String::from("an old text that lives on the heap"))
                                    }
                                    _ => (LeanString::from_static_str(OLD_STATIC), String::from(OLD_STATIC)),
                                };
                                let rl = sd::de_in_place_lean(via, &inp, &mut dl);
                                let rs = sd::de_in_place_std(via, &inp, &mut ds);
                                if rl.is_ok() != rs.is_ok() || (rl.is_ok() && dl.as_str() != ds.as_str()) {
                                    finding(&format!("de_in_place_{via}"), json!(inp), json!({"std_ok":rs.is_ok(),"std_text":ds.as_bytes(),"dest_state":state}), json!({"ok":rl.is_ok(),"text":dl.as_bytes()}), &mut findings, &mut kinds);
                                }
                            }
                        }
                    }
                    if valid {
                        for via in ["str", "borrowed_str", "string"] {
                            let r = sd::de_lean(via, &inp);
                            if r.as_ref().map(|s| s.as_bytes() == &inp[..]).unwrap_or(false) == false {
                                finding(&format!("de_{via}"), json!(inp), json!("Ok(same text)"), json!(r.as_ref().map(|s| s.as_bytes().to_vec()).map_err(|e| e.clone())), &mut findings, &mut kinds);
                            }
                        }
                    }
                }
                let st = shim::end_call(before);
                let mut errs = st.errors;
                errs.extend(shim::finish_history());
                if !errs.is_empty() {
                    finding("memory", json!(inp), json!([]), json!(errs), &mut findings, &mut kinds);
                }
            }
        } else if let Some(j) = inner.strip_prefix("U16 ") {
            let v: Value = serde_json::from_str(j).unwrap();
            n16 += 1;
            let u: Vec<u16> = v["u"].as_array().unwrap().iter().map(|x| x.as_u64().unwrap() as u16).collect();
            let ok = v["ok"] == true;
            let t = bytes_of(&v["t"]);
            let l = bytes_of(&v["l"]);
            let std_ok = String::from_utf16(&u);
            if std_ok.is_ok() != ok || (ok && std_ok.as_ref().unwrap().as_bytes() != &t[..]) || String::from_utf16_lossy(&u).as_bytes() != &l[..] {
                spec_errors += 1;
                if spec_samples.len() < 5 {
                    spec_samples.push(json!({"units":u,"spec_ok":ok,"spec_text":t,"spec_lossy":l}));
                }
                continue;
            }
            // bare; padded across the inline limit; behind 12..16 ASCII units (the decoded text then ends / begins around byte 16)
            let mut pads16: Vec<(usize, usize)> = vec![(0, 0), (14, 2)];
            if !u.is_empty() {
                pads16.extend([(12, 0), (13, 0), (14, 0), (15, 0), (16, 0)]);
            }
            // short sequences also behind long ASCII runs: a pair or a lone surrogate across the edge of any block a decoder might work in
            if std::env::var("LS_CODEC_SHORT").is_err() && !u.is_empty() && u.len() <= 2 {
                for blk in [32usize, 64, 100, 128, 256, 512, 1000, 1024, 2048, 4096] {
                    for n in blk - 3..=blk + 1 {
                        pads16.push((n, 2));
                    }
                }
            }
            if std::env::var("LS_CODEC_SHORT").is_err() && !u.is_empty() && u.len() <= 2 {
                for k in [31usize, 32, 33, 63, 64, 65, 100, 127, 128, 129, 255, 256, 257, 1000] {
                    let inp: Vec<u16> = u.iter().copied().cycle().take(u.len() * k).collect();
                    checks += 1;
                    note_pending("utf16", json!(inp));
                    let want = String::from_utf16(&inp);
                    let got = LeanString::from_utf16(&inp);
                    if got.is_ok() != want.is_ok() || (got.is_ok() && got.as_ref().unwrap().as_str() != want.as_ref().unwrap().as_str()) {
                        finding("utf16", json!(inp), json!({"ok":want.is_ok()}), json!({"ok":got.is_ok()}), &mut findings, &mut kinds);
                    }
                    let l = LeanString::from_utf16_lossy(&inp);
                    if l.as_str() != String::from_utf16_lossy(&inp) {
                        finding("utf16_lossy", json!(inp), json!(String::from_utf16_lossy(&inp).as_bytes()), json!(l.as_bytes()), &mut findings, &mut kinds);
                    }
                }
            }
            for (nl, nr) in pads16 {
                let pl: Vec<u16> = std::iter::repeat(b'A' as u16).take(nl).collect();
                let pr: Vec<u16> = std::iter::repeat(b'Z' as u16).take(nr).collect();
                let (bl, br) = (vec![b'A'; nl], vec![b'Z'; nr]);
                let (inp, et, el): (Vec<u16>, Vec<u8>, Vec<u8>) =
                    ([&pl[..], &u[..], &pr[..]].concat(), [&bl[..], &t[..], &br[..]].concat(), [&bl[..], &l[..], &br[..]].concat());
                checks += 1;
                note_pending("utf16", json!(inp));
                let before = shim::begin_call(&[]);
                match LeanString::from_utf16(&inp) {
                    Ok(s) => {
                        if !ok || s.as_bytes() != &et[..] {
                            finding("utf16", json!(inp), json!({"ok":ok,"text":et}), json!({"ok":s.as_bytes()}), &mut findings, &mut kinds);
                        }
                    }
                    Err(_) => {
                        if ok {
                            finding("utf16", json!(inp), json!({"ok":ok}), json!("Err"), &mut findings, &mut kinds);
                        }
                    }
                }
                let s = LeanString::from_utf16_lossy(&inp);
                if s.as_bytes() != &el[..] {
                    finding("utf16_lossy", json!(inp), json!(el), json!(s.as_bytes()), &mut findings, &mut kinds);
                }
                drop(s);
                let st = shim::end_call(before);
                let mut errs = st.errors;
                errs.extend(shim::finish_history());
                if !errs.is_empty() {
                    finding("memory", json!(inp), json!([]), json!(errs), &mut findings, &mut kinds);
                }
            }
        }
    }
    let summary = json!({"u8_sequences":n8,"u16_sequences":n16,"checks":checks,"spec_errors":spec_errors,"spec_error_samples":spec_samples,
        "findings":findings,"finding_kinds":kinds,"samples":samples,"tlc_tail":tlc_tail});
    std::fs::write(format!("{out_dir}/codec_summary.json"), serde_json::to_string_pretty(&summary).unwrap()).unwrap();
    let _ = std::fs::remove_file(&pending_path);
    println!("codec: u8={n8} u16={n16} checks={checks} findings={} spec_errors={spec_errors}", kinds.values().sum::<u64>());
    0
}

// ------------------------------------------------------------------------------------------ conv
fn limbs(mut m: u128) -> Vec<u32> {
    let mut v = vec![];
    while m > 0 {
        v.push((m & 0xffff) as u32);
        m >>= 16;
    }
    v
}

macro_rules! int_types {
    ($($name:literal $t:ty, $nz:literal)*) => {
        /// converts (neg, magnitude) to the named type and formats it: (lean text, heap, dA, cap, std text)
        fn conv_int(ty: &str, neg: bool, mag: u128) -> Option<(Vec<u8>, bool, u64, usize, Vec<u8>)> {
            use core::num::NonZero;
            match ty {
                $(
                    $name => {
                        let v: $t = if neg { <$t>::try_from(0i128.checked_sub(i128::try_from(mag).ok()?)?).ok()? } else { <$t>::try_from(mag).ok()? };
                        let before = shim::begin_call(&[]);
                        let s = crate::gate::mx(|| v.to_lean_string());
                        let (t, h, d, c) = obs(&s, before);
                        Some((t, h, d, c, v.to_string().into_bytes()))
                    }
                    $nz => {
                        let v: $t = if neg { <$t>::try_from(0i128.checked_sub(i128::try_from(mag).ok()?)?).ok()? } else { <$t>::try_from(mag).ok()? };
                        let nz = NonZero::new(v)?;
                        let before = shim::begin_call(&[]);
                        let s = crate::gate::mx(|| nz.to_lean_string());
                        let (t, h, d, c) = obs(&s, before);
                        Some((t, h, d, c, nz.to_string().into_bytes()))
                    }
                )*
                _ => None,
            }
        }
        const INT_TYPES: &[(&str, u32, bool)] = &[$(($name, <$t>::BITS, <$t>::MIN != 0), ($nz, <$t>::BITS, <$t>::MIN != 0),)*];
    };
}
int_types! {
    "i8" i8, "nz_i8"  "u8" u8, "nz_u8"  "i16" i16, "nz_i16"  "u16" u16, "nz_u16"  "i32" i32, "nz_i32"  "u32" u32, "nz_u32"
    "i64" i64, "nz_i64"  "u64" u64, "nz_u64"  "isize" isize, "nz_isize"  "usize" usize, "nz_usize"
}
// i128 / u128: magnitudes up to 2^128-1 do not fit the i128 detour above
fn conv_128(ty: &str, neg: bool, mag: u128) -> Option<(Vec<u8>, bool, u64, usize, Vec<u8>)> {
    use core::num::NonZero;
    let before;
    let (s, std): (LeanString, String) = match ty {
        "u128" | "nz_u128" => {
            if neg {
                return None;
            }
            if ty == "u128" {
                before = shim::begin_call(&[]);
                (crate::gate::mx(|| mag.to_lean_string()), mag.to_string())
            } else {
                let nz = NonZero::new(mag)?;
                before = shim::begin_call(&[]);
                (crate::gate::mx(|| nz.to_lean_string()), nz.to_string())
            }
        }
        "i128" | "nz_i128" => {
            let v: i128 = if neg {
                if mag > (1u128 << 127) {
                    return None;
                }
                (mag as i128).wrapping_neg()
            } else {
                i128::try_from(mag).ok()?
            };
            if ty == "i128" {
                before = shim::begin_call(&[]);
                (crate::gate::mx(|| v.to_lean_string()), v.to_string())
            } else {
                let nz = NonZero::new(v)?;
                before = shim::begin_call(&[]);
                (crate::gate::mx(|| nz.to_lean_string()), nz.to_string())
            }
        }
        _ => return None,
    };
    let (t, h, d, c) = obs(&s, before);
    Some((t, h, d, c, std.into_bytes()))
}

fn families(bits: u32, r: &mut Rng, per_digits: usize) -> Vec<u128> {
    let max: u128 = if bits == 128 { u128::MAX } else { (1u128 << bits) - 1 };
    let mut v: Vec<u128> = vec![];
    let mut push = |x: u128, v: &mut Vec<u128>| {
        for d in 0..=3u128 {
            v.push(x.saturating_add(d).min(max));
            v.push(x.saturating_sub(d));
        }
    };
    let mut p: u128 = 1;
    loop {
        push(p, &mut v);
        for k in [100u128, 9999, 10000, 99, 101, 5] {
            if let Some(x) = p.checked_mul(k) {
                if x <= max {
                    v.push(x);
                }
            }
        }
        match p.checked_mul(10) {
            Some(q) if q <= max => p = q,
            _ => break,
        }
    }
    for b in 0..bits {
        push(1u128 << b, &mut v);
    }
    push(max, &mut v);
    push(max / 2, &mut v);
    push(max / 2 + 1, &mut v);
    // random values of every digit count
    let mut lo: u128 = 1;
    loop {
        let hi = lo.checked_mul(10).map(|x| x - 1).unwrap_or(max).min(max);
        for _ in 0..per_digits {
            let x = ((r.next() as u128) << 64 | r.next() as u128) % (hi - lo + 1) + lo;
            v.push(x);
        }
        match lo.checked_mul(10) {
            Some(q) if q <= max => lo = q,
            _ => break,
        }
    }
    v.sort_unstable();
    v.dedup();
    v
}

struct Pieces {
    pieces: Vec<Vec<u8>>,
    fail_at: usize,
    calls: std::cell::Cell<u32>,
}
impl std::fmt::Display for Pieces {
    fn fmt(&self, f: &mut std::fmt::Formatter<'_>) -> std::fmt::Result {
        self.calls.set(self.calls.get() + 1);
        if self.calls.get() > 1 {
            return f.write_str(crate::pool::AGAIN); // `to_string()` formats a value exactly once
        }
        for (i, p) in self.pieces.iter().enumerate() {
            if self.fail_at == i + 1 {
                return Err(std::fmt::Error);
            }
            crate::pool::write_piece(f, std::str::from_utf8(p).unwrap())?;
        }
        if self.fail_at == self.pieces.len() + 1 {
            return Err(std::fmt::Error);
        }
        Ok(())
    }
}

fn float_rec(is32: bool, bits: u64) -> Value {
    let before = shim::begin_call(&[]);
    let (s, cls, neg, rt) = if is32 {
        let f = f32::from_bits(bits as u32);
        let s = crate::gate::mx(|| f.to_lean_string());
        let back: Result<f32, _> = s.as_str().parse();
        let rt = match back {
            Ok(b) => b.to_bits() == f.to_bits() || (b.is_nan() && f.is_nan()),
            Err(_) => false,
        };
        let cls = if f.is_nan() { "nan" } else if f == f32::INFINITY { "pinf" } else if f == f32::NEG_INFINITY { "ninf" } else if f == 0.0 { if f.is_sign_negative() { "nzero" } else { "pzero" } } else { "finite" };
        (s, cls, f.is_sign_negative(), rt)
    } else {
        let f = f64::from_bits(bits);
        let s = crate::gate::mx(|| f.to_lean_string());
        let back: Result<f64, _> = s.as_str().parse();
        let rt = match back {
            Ok(b) => b.to_bits() == f.to_bits() || (b.is_nan() && f.is_nan()),
            Err(_) => false,
        };
        let cls = if f.is_nan() { "nan" } else if f == f64::INFINITY { "pinf" } else if f == f64::NEG_INFINITY { "ninf" } else if f == 0.0 { if f.is_sign_negative() { "nzero" } else { "pzero" } } else { "finite" };
        (s, cls, f.is_sign_negative(), rt)
    };
    let (t, h, d, c) = obs(&s, before);
    json!({"k":"float","w":if is32 {32} else {64},"bits":bits.to_string(),"cls":cls,"neg":neg,"text":t,"rt":rt,"heap":h,"dA":d,"cap":c})
}

pub fn conv(out_dir: &str, files: usize, thorough: bool, seed: u64) -> i32 {
    std::fs::create_dir_all(out_dir).unwrap();
    let mut r = Rng::new(seed ^ 0xC0FFEE);
    let mut recs: Vec<Value> = vec![];
    let mut counts: BTreeMap<String, u64> = BTreeMap::new();
    // ---- integers (C14)
    let per_digits = if thorough { 12 } else { 3 };
    for (ty, bits, signed) in INT_TYPES.iter().copied().chain([("i128", 128, true), ("nz_i128", 128, true), ("u128", 128, false), ("nz_u128", 128, false)]) {
        let exhaustive = bits == 8 || (bits == 16 && thorough);
        let mags: Vec<u128> = if exhaustive { (0..=(1u128 << bits) - 1).collect() } else { families(bits, &mut r, per_digits) };
        for m in mags {
            for neg in [false, true] {
                if neg && (!signed || m == 0) {
                    continue;
                }
                let res = if bits == 128 { conv_128(ty, neg, m) } else { conv_int(ty, neg, m) };
                let Some((t, h, d, c, std)) = res else { continue };
                *counts.entry(format!("int:{ty}")).or_default() += 1;
                recs.push(json!({"k":"int","ty":ty,"neg":neg,"limbs":limbs(m),"text":t,"heap":h,"dA":d,"cap":c,"std":std}));
            }
        }
    }
    // ---- bool, char, String, LeanString (C15)
    for b in [false, true] {
        let before = shim::begin_call(&[]);
        let s = crate::gate::mx(|| b.to_lean_string());
        let (t, h, d, c) = obs(&s, before);
        recs.push(json!({"k":"bool","v":b,"text":t,"heap":h,"dA":d,"cap":c}));
        *counts.entry("bool".into()).or_default() += 1;
    }
    let mut cps: Vec<u32> = vec![0, 1, 0x41, 0x7f, 0x80, 0x7ff, 0x800, 0xd7ff, 0xe000, 0xfffd, 0xffff, 0x10000, 0x10ffff, 0x1D11E];
    for _ in 0..(if thorough { 4000 } else { 400 }) {
        cps.push((r.next() % 0x110000) as u32);
    }
    for cp in cps {
        let Some(ch) = char::from_u32(cp) else { continue };
        let before = shim::begin_call(&[]);
        let s = crate::gate::mx(|| ch.to_lean_string());
        let (t, h, d, c) = obs(&s, before);
        recs.push(json!({"k":"char","cp":cp,"text":t,"heap":h,"dA":d,"cap":c,"std":ch.to_string().as_bytes()}));
        *counts.entry("char".into()).or_default() += 1;
    }
    let alphabet = ["a", "é", "€", "𝄞", "\"", "\\", "\n", "\0", "z"];
    for len in [0usize, 1, 5, 14, 15, 16, 17, 18, 31, 40] {
        for rep in 0..(if thorough { 12 } else { 3 }) {
            let mut s = String::new();
            while s.len() < len {
                let c = alphabet[(r.next() % alphabet.len() as u64) as usize];
                if s.len() + c.len() > len {
                    s.push_str(&"x".repeat(len - s.len()));
                    break;
                }
                s.push_str(c);
            }
            let _ = rep;
            for via in ["string", "lean"] {
                let text: (Vec<u8>, bool, u64, usize) = if via == "string" {
                    let before = shim::begin_call(&[]);
                    let l = crate::gate::mx(|| s.to_lean_string());
                    obs(&l, before)
                } else {
                    let src = LeanString::from(s.as_str());
                    let before = shim::begin_call(&[]);
                    let l = crate::gate::mx(|| src.to_lean_string());
                    let o = obs(&l, before);
                    // cloning never allocates (C08): report it through the storage predicate's dA only when it is the first buffer
                    (o.0, o.1, if o.1 { 1 } else { 0 } + o.2, o.3)
                };
                recs.push(json!({"k":"str","via":via,"inp":s.as_bytes(),"text":text.0,"heap":text.1,"dA":text.2,"cap":text.3}));
                *counts.entry(format!("str:{via}")).or_default() += 1;
                #[cfg(feature = "ls-serde")]
                if via == "string" {
                    let l = LeanString::from(s.as_str());
                    let calls: Vec<Value> = sd::ser_calls(&l).into_iter().map(|(m, v)| json!({"m":m,"v":v})).collect();
                    let std_calls: Vec<Value> = sd::ser_calls_std(&s).into_iter().map(|(m, v)| json!({"m":m,"v":v})).collect();
                    recs.push(json!({"k":"ser","text":s.as_bytes(),"calls":calls,"stdcalls":std_calls}));
                    *counts.entry("ser".into()).or_default() += 1;
                }
            }
        }
    }
    // ---- user Display types writing their text in pieces, failing after piece k (C15)
    let piece_texts: [&[u8]; 9] = [b"", b"a", "é€".as_bytes(), b"0123456789abcdef", b"xyzxyzxyzxyzxyzxyzxyz", "中".as_bytes(), "\u{100}".as_bytes(), "😀".as_bytes(), "─".as_bytes()];
    // padding with a non-ASCII fill goes through write_char as well
    for fill in ['─', '中', 'x', '\u{100}', '😀'] {
        struct Ruled(char);
        impl std::fmt::Display for Ruled {
            fn fmt(&self, f: &mut std::fmt::Formatter<'_>) -> std::fmt::Result {
                for _ in 0..6 {
                    std::fmt::Write::write_char(f, self.0)?;
                }
                f.write_str(" summary ")?;
                for _ in 0..6 {
                    std::fmt::Write::write_char(f, self.0)?;
                }
                Ok(())
            }
        }
        let v = Ruled(fill);
        let before = shim::begin_call(&[]);
        let res = v.try_to_lean_string();
        let st = shim::end_call(before);
        let pieces: Vec<Vec<u8>> = (0..6).map(|_| fill.to_string().into_bytes()).chain([b" summary ".to_vec()]).chain((0..6).map(|_| fill.to_string().into_bytes())).collect();
        recs.push(json!({"k":"disp","pieces":pieces,"failat":0,"cls":if res.is_ok() {"ok"} else {"err"},"msg":"","text":res.as_ref().map(|s| s.as_bytes().to_vec()).unwrap_or_default(),
            "stdcls":"ok","stdtext":v.to_string().as_bytes(),"dA":st.d_a}));
        *counts.entry("disp".into()).or_default() += 1;
    }
    for n in 0..=3usize {
        let combos = piece_texts.len().pow(n as u32);
        for ci in 0..combos {
            let mut pieces = vec![];
            let mut x = ci;
            for _ in 0..n {
                pieces.push(piece_texts[x % piece_texts.len()].to_vec());
                x /= piece_texts.len();
            }
            for fail_at in 0..=(n + 1) {
                let p = Pieces { pieces: pieces.clone(), fail_at, calls: Default::default() };
                let before = shim::begin_call(&[]);
                let res = p.try_to_lean_string();
                let st = shim::end_call(before);
                let (cls, msg, text) = match &res {
                    Ok(s) => ("ok", "", s.as_bytes().to_vec()),
                    Err(lean_string::ToLeanStringError::Fmt(_)) => ("err", "fmt", vec![]),
                    Err(lean_string::ToLeanStringError::Reserve(_)) => ("err", "reserve", vec![]),
                };
                let mut std_s = String::new();
                let p = Pieces { pieces: pieces.clone(), fail_at, calls: Default::default() }; // a fresh, identical value
                let std_r = std::fmt::write(&mut std_s, format_args!("{}", p));
                recs.push(json!({"k":"disp","pieces":pieces,"failat":fail_at,"cls":cls,"msg":msg,"text":text,
                    "stdcls":if std_r.is_ok() {"ok"} else {"err"},"stdtext":if std_r.is_ok() { std_s.as_bytes().to_vec() } else { vec![] },"dA":st.d_a}));
                *counts.entry("disp".into()).or_default() += 1;
                drop(res);
            }
        }
    }
    // ---- floats (C15): class representatives, every exponent, random mantissas
    let mut f32s: Vec<u32> = vec![0, 0x8000_0000, 0x7f80_0000, 0xff80_0000, 0x7fc0_0000, 0xffc0_0001, 1, 0x007f_ffff, 0x0080_0000, 0x7f7f_ffff, 0x3f80_0000, 0xbf80_0000];
    for e in 0..=255u32 {
        for m in [0u32, 1, 0x7f_ffff, (r.next() as u32) & 0x7f_ffff] {
            f32s.push(e << 23 | m);
            f32s.push(1 << 31 | e << 23 | m);
        }
    }
    for _ in 0..(if thorough { 20000 } else { 1500 }) {
        f32s.push(r.next() as u32);
    }
    for b in f32s {
        recs.push(float_rec(true, b as u64));
        *counts.entry("f32".into()).or_default() += 1;
    }
    let mut f64s: Vec<u64> = vec![0, 1 << 63, 0x7ff0_0000_0000_0000, 0xfff0_0000_0000_0000, 0x7ff8_0000_0000_0000, 1, 0x000f_ffff_ffff_ffff, 0x0010_0000_0000_0000, 0x7fef_ffff_ffff_ffff, 0x3ff0_0000_0000_0000];
    for e in 0..=2047u64 {
        for m in [0u64, 1, (1 << 52) - 1, r.next() & ((1 << 52) - 1)] {
            f64s.push(e << 52 | m);
            // the negative of every class (thorough: of every exponent): -0, negative subnormals, -inf, NaNs with the sign bit set
            if thorough || e <= 1 || e >= 2046 || e == 1023 {
                f64s.push(1 << 63 | e << 52 | m);
            }
        }
    }
    // NaN payloads, quiet and signalling, both signs; values that are exactly an f32
    f64s.extend([0xfff8_0000_0000_0000u64, 0xfff0_0000_0000_0001, 0x7ff0_0000_0000_0001, 0xffff_ffff_ffff_ffff, 0x7fff_ffff_ffff_ffff, 0xfff4_0000_0000_0000]);
    for b in [0.1f32, f32::MAX, f32::MIN_POSITIVE, f32::EPSILON, 16777217.0, 1e13, 33997272.0] {
        f64s.push((b as f64).to_bits());
        f64s.push((-(b as f64)).to_bits());
    }
    for _ in 0..(if thorough { 20000 } else { 1500 }) {
        f64s.push(r.next());
    }
    for b in f64s {
        recs.push(float_rec(false, b));
        *counts.entry("f64".into()).or_default() += 1;
    }
    // ---- arbitrary (C19)
    #[cfg(feature = "ls-arbitrary")]
    {
        use arbitrary::{Arbitrary, Unstructured};
        let classes: [u8; 7] = [0, 1, 0x41, 0x7f, 0x80, 0xc3, 0xff];
        let mut inputs: Vec<Vec<u8>> = vec![vec![]];
        for a in classes {
            inputs.push(vec![a]);
            for b in classes {
                inputs.push(vec![a, b]);
                for c in classes {
                    inputs.push(vec![a, b, c]);
                }
            }
        }
        // seeds with a length-prefixed window that contains ill-formed UTF-8, followed by more data
        for tail in [&b"cdefgh\x04\x05"[..], b"\x02\x03zz", b"\xc3\xa9\x01"] {
            for bad in [0xffu8, 0x80, 0xc3] {
                let mut v = vec![b'a', b'b', bad];
                v.extend_from_slice(tail);
                inputs.push(v);
            }
        }
        for _ in 0..(if thorough { 3000 } else { 300 }) {
            let n = (r.next() % 40) as usize;
            inputs.push((0..n).map(|_| if r.next() % 3 == 0 { (r.next() % 256) as u8 } else { b'a' + (r.next() % 26) as u8 }).collect());
        }
        for inp in inputs {
            for rest in [false, true] {
                let mut follow_same = true;
                let (l, s): (arbitrary::Result<LeanString>, arbitrary::Result<&str>) = if rest {
                    (LeanString::arbitrary_take_rest(Unstructured::new(&inp)), <&str>::arbitrary_take_rest(Unstructured::new(&inp)))
                } else {
                    // the same bytes must be consumed: what is left, and what the next draws yield, is the same
                    let (mut u1, mut u2) = (Unstructured::new(&inp), Unstructured::new(&inp));
                    let r = (LeanString::arbitrary(&mut u1), <&str>::arbitrary(&mut u2));
                    follow_same &= u1.len() == u2.len();
                    for _ in 0..2 {
                        let (a, b) = (LeanString::arbitrary(&mut u1), <&str>::arbitrary(&mut u2));
                        follow_same &= a.is_ok() == b.is_ok() && a.as_ref().map(|x| x.as_str().to_string()).ok() == b.map(|x| x.to_string()).ok() && u1.len() == u2.len();
                    }
                    r
                };
                let same = follow_same && l.is_ok() == s.is_ok() && LeanString::size_hint(0) == <&str>::size_hint(0);
                recs.push(json!({"k":"arb","inp":inp,"rest":rest,"ok":l.is_ok(),"same":same,
                    "text":l.as_ref().map(|x| x.as_bytes().to_vec()).unwrap_or_default(),"ref":s.as_ref().map(|x| x.as_bytes().to_vec()).unwrap_or_default()}));
                *counts.entry("arb".into()).or_default() += 1;
            }
        }
    }
    let errs = shim::finish_history();
    // ---- write round-robin into `files` traces
    let mut outs: Vec<std::io::BufWriter<std::fs::File>> =
        (0..files).map(|i| std::io::BufWriter::new(std::fs::File::create(format!("{out_dir}/conv_{i:03}.ndjson")).unwrap())).collect();
    for (i, rec) in recs.iter().enumerate() {
        writeln!(outs[i % files], "{}", rec).unwrap();
    }
    for o in outs.iter_mut() {
        o.flush().unwrap();
    }
    let samples: Vec<&Value> = recs.iter().filter(|r| r["k"] == "int").step_by(997).take(3).chain(recs.iter().filter(|r| r["k"] == "disp").skip(40).take(1)).collect();
    let summary = json!({"records":recs.len(),"counts":counts,"end_errors":errs,"samples":samples});
    std::fs::write(format!("{out_dir}/conv_summary.json"), serde_json::to_string_pretty(&summary).unwrap()).unwrap();
    println!("conv: records={} files={files}", recs.len());
    0
}

/// Sweeps too large for TLC (reported as `outside_tlc`): all 2^32 values of the 32-bit integer
/// types against Display, all 2^32 f32 bit patterns for the parse round trip.
pub fn sweep(out_dir: &str, what: &str) -> i32 {
    std::fs::create_dir_all(out_dir).unwrap();
    let nthreads = 16u64;
    let bad = std::sync::atomic::AtomicU64::new(0);
    let first_bad = std::sync::Mutex::new(Vec::<String>::new());
    std::thread::scope(|s| {
        for t in 0..nthreads {
            let bad = &bad;
            let first_bad = &first_bad;
            s.spawn(move || {
                let chunk = (1u64 << 32) / nthreads;
                for x in (t * chunk)..((t + 1) * chunk) {
                    let ok = match what {
                        "u32" => (x as u32).to_lean_string().as_str() == (x as u32).to_string(),
                        "i32" => (x as u32 as i32).to_lean_string().as_str() == (x as u32 as i32).to_string(),
                        "f32" => {
                            let f = f32::from_bits(x as u32);
                            let s = crate::gate::mx(|| f.to_lean_string());
                            match s.as_str().parse::<f32>() {
                                Ok(b) => b.to_bits() == f.to_bits() || (b.is_nan() && f.is_nan()),
                                Err(_) => false,
                            }
                        }
                        _ => true,
                    };
                    if !ok {
                        bad.fetch_add(1, std::sync::atomic::Ordering::Relaxed);
                        let mut g = first_bad.lock().unwrap();
                        if g.len() < 10 {
                            g.push(format!("{what}:{x}"));
                        }
                    }
                }
            });
        }
    });
    let n = bad.load(std::sync::atomic::Ordering::Relaxed);
    let summary = json!({"what":what,"values":1u64 << 32,"bad":n,"first_bad":*first_bad.lock().unwrap()});
    std::fs::write(format!("{out_dir}/sweep_{what}.json"), serde_json::to_string_pretty(&summary).unwrap()).unwrap();
    println!("sweep {what}: bad={n}");
    0
}

// ------------------------------------------------------------------------------------------ scale
/// Behaviour at sizes far beyond the exhaustive scenarios (KiB .. MiB): growth events of push
/// loops, cloning of long strings, single calls on long strings compared with String. Only
/// scalars are recorded; the TLC monitor (Convert.tla) evaluates the predicates.
pub fn scale(out_dir: &str, thorough: bool, seed: u64) -> i32 {
    std::fs::create_dir_all(out_dir).unwrap();
    let mut r = Rng::new(seed ^ 0x5CA1E);
    let mut recs: Vec<Value> = vec![];
    let final_len: usize = if thorough { 8 << 20 } else { 3 << 20 };
    // ---- push loops: every growth event, from four kinds of start
    static LONG_STATIC: &str = "a static text that is longer than sixteen bytes, used as the start of a push loop";
    for (start, piece) in [("inline", "a"), ("static", "a"), ("shared", "€"), ("heap-exact", "ab"), ("with_capacity", "𝄞")] {
        let before0 = shim::begin_call(&[]);
        let mut keep: Option<LeanString> = None;
        let mut s = match start {
            "inline" => LeanString::new(),
            "static" => LeanString::from_static_str(LONG_STATIC),
            "shared" => {
                let a = LeanString::from("shared start of twenty-six");
                keep = Some(a.clone());
                a
            }
            "heap-exact" => LeanString::from("exactly as long as needed!"),
            _ => LeanString::with_capacity(100),
        };
        let mut std = s.as_str().to_string();
        let cap0 = s.capacity();
        let mut events = 0u64;
        let _ = shim::end_call(before0);
        while s.len() < final_len {
            let (len, cap, ptr) = (s.len(), s.capacity(), s.as_ptr() as usize);
            let before = shim::begin_call(&[]);
            s.push_str(piece);
            let st = shim::end_call(before);
            std.push_str(piece);
            if st.d_a + st.d_r > 0 {
                events += 1;
                recs.push(json!({"k":"grow","start":start,"len":len,"add":piece.len(),"cap1":cap,"cap2":s.capacity(),"dA":st.d_a,"dR":st.d_r}));
            } else if ptr != s.as_ptr() as usize || s.capacity() != cap {
                recs.push(json!({"k":"bigop","op":"push-moved","teq":true,"len2":s.len(),"explen":s.len(),"cap2":s.capacity(),"resok":false,"fits":true,"dA":0,"dR":0,"sameptr":false,"others":true}));
            }
        }
        recs.push(json!({"k":"loop","start":start,"cap0":cap0,"final":s.len(),"events":events,"teq":s.as_str() == std,"lenok":s.len() == std.len()}));
        drop(keep);
    }
    // ---- reserve / insert growth at large sizes
    let mut big_lens = vec![(1usize << 20) - 1, (1 << 20) + 1, 3 << 20, (5 << 20) + 7];
    for i in 0..(if thorough { 60 } else { 20 }) {
        let len = if i < big_lens.len() { std::mem::take(&mut big_lens[i]) } else { 1000 + r.below(200_000) };
        let mut s = LeanString::from("x".repeat(len).as_str());
        let add = *r.pick(&[1usize, 7, len / 3, len / 2, len / 2 + 1, len, 3 * len]);
        let how = r.below(3);
        let before = shim::begin_call(&[]);
        match how {
            0 => s.reserve(add),
            1 => s.insert_str(len / 2, &"y".repeat(add)),
            _ => s.push_str(&"z".repeat(add)),
        }
        let st = shim::end_call(before);
        let how_name = ["reserve", "insert", "push_str"][how];
        recs.push(json!({"k":"grow","start":how_name,"len":len,"add":add,"cap1":len,"cap2":s.capacity(),"dA":st.d_a,"dR":st.d_r}));
    }
    // ---- growth out of a roomy buffer: a sole owner with kilobytes of reserved (or left-over) room and a short text asks
    // for more than the room; then uses what it was promised
    for (cap, textlen, cut) in [(4096usize, 10usize, false), (8192, 28, false), (8192, 1024, false), (65536, 100, false), (1 << 20, 5000, false), (6000, 40, true), (70000, 0, true),
        // capacities that are not a multiple of the block alignment: a request that ends inside the padding of the block still is a request
        (1025, 3, false), (1027, 0, false), (2046, 9, false), (4099, 10, false), (65537, 100, false), (1029, 5, true)] {
        for how in ["reserve", "push_str", "insert"] {
            for over in (if cap % 8 == 0 { vec![1usize, 1000, cap] } else { vec![1usize, 2, 3, 4, 5, 6, 7, 8, 9, 1000] }) {
                let text = "r".repeat(textlen);
                let mut s = if cut {
                    let mut s = LeanString::from("r".repeat(cap).as_str());
                    s.truncate(textlen);
                    s
                } else {
                    let mut s = LeanString::with_capacity(cap);
                    s.push_str(&text);
                    s
                };
                let mut std = text.clone();
                let cap1 = s.capacity();
                let add = cap1 - textlen + over;
                let before = shim::begin_call(&[]);
                let r = std::panic::catch_unwind(std::panic::AssertUnwindSafe(|| match how {
                    "reserve" => s.reserve(add),
                    "insert" => s.insert_str(textlen / 2, &"y".repeat(add)),
                    _ => s.push_str(&"z".repeat(add)),
                }));
                let st = shim::end_call(before);
                match how {
                    "reserve" => {}
                    "insert" => std.insert_str(textlen / 2, &"y".repeat(add)),
                    _ => std.push_str(&"z".repeat(add)),
                }
                recs.push(json!({"k":"grow","start":format!("roomy-{how}"),"len":textlen,"add":add,"cap1":cap1,"cap2":s.capacity(),"dA":st.d_a,"dR":st.d_r}));
                recs.push(json!({"k":"bigop","op":format!("roomy-{how} cap {cap1} len {textlen} +{add}"),"teq":r.is_ok() && s.as_str() == std,"len2":s.len(),"explen":std.len(),"cap2":s.capacity(),
                    "resok":s.capacity() >= textlen + add,"fits":false,"dA":st.d_a,"dR":st.d_r,"sameptr":true,"others":true}));
                if how == "reserve" && r.is_ok() {
                    // the promise is used: an append of exactly the reserved amount neither allocates nor moves the text
                    let (ptr, capb) = (s.as_ptr() as usize, s.capacity());
                    let before = shim::begin_call(&[]);
                    let r2 = std::panic::catch_unwind(std::panic::AssertUnwindSafe(|| s.push_str(&"w".repeat(add))));
                    let st = shim::end_call(before);
                    std.push_str(&"w".repeat(add));
                    recs.push(json!({"k":"bigop","op":format!("roomy-use cap {capb} +{add}"),"teq":r2.is_ok() && s.as_str() == std,"len2":s.len(),"explen":std.len(),"cap2":s.capacity(),
                        "resok":s.capacity() == capb,"fits":true,"dA":st.d_a,"dR":st.d_r,"sameptr":ptr == s.as_ptr() as usize,"others":true}));
                }
            }
        }
    }
    // ---- the growth rule is integer arithmetic at every length: lengths around 2^23/1.5, 2^24/1.5, 2^24, 2^25 (where a
    // detour through f32 / f64 mantissas, or a narrower integer, starts to round), in every residue class mod 4 and mod 3
    for base in [5_592_405usize, 11_184_808, (1 << 24) - 2, (1 << 24) + (1 << 23) - 1, (1 << 25) + 1] {
        for d in 0..(if thorough { 12 } else { 6 }) {
            let len = base + d;
            let mut s = LeanString::from("x".repeat(len).as_str());
            let (add, how_name) = [(1usize, "push_str"), (1, "reserve"), (len / 2, "reserve"), (3, "insert")][d % 4];
            let before = shim::begin_call(&[]);
            match how_name {
                "reserve" => s.reserve(add),
                "insert" => s.insert_str(len / 2, "yyy"),
                _ => s.push_str("z"),
            }
            let st = shim::end_call(before);
            recs.push(json!({"k":"grow","start":how_name,"len":len,"add":add,"cap1":len,"cap2":s.capacity(),"dA":st.d_a,"dR":st.d_r}));
        }
    }
    // ---- cloning at length, from every kind of owner: a buffer already shared, a sole owner with an exact buffer, with
    // kilobytes of reserved room, with most of a long text cut off, after one amortised growth step
    for len in [17usize, 100, 4096, 65536, 1 << 20] {
        for via in ["clone", "clone_from", "from_ref", "tls"] {
            for owner in ["shared", "unique", "spare", "cut", "grown"] {
                for truncated in [false, true] {
                    let text = "q".repeat(len);
                    let (a, mut src): (Option<LeanString>, LeanString) = match owner {
                        "shared" => {
                            let a = LeanString::from(text.as_str());
                            let s = a.clone();
                            (Some(a), s)
                        }
                        "unique" => (None, LeanString::from(text.as_str())),
                        "spare" => {
                            let mut s = LeanString::with_capacity(len + 8192);
                            s.push_str(&text);
                            (None, s)
                        }
                        "cut" => {
                            let mut s = LeanString::from("q".repeat(len + 6000).as_str());
                            s.truncate(len);
                            (None, s)
                        }
                        _ => {
                            let mut s = LeanString::from(&text[1..]);
                            s.push('q');
                            (None, s)
                        }
                    };
                    if truncated {
                        src.truncate(len / 2 + 9);
                    }
                    let holders = if a.is_some() { 3 } else { 2 };
                    let before = shim::begin_call(&[]);
                    crate::gate::take_extra();
                    let c = match via {
                        "clone" => crate::gate::mx(|| src.clone()),
                        "clone_from" => {
                            let mut d = LeanString::new();
                            crate::gate::mx(|| d.clone_from(&src));
                            d
                        }
                        "from_ref" => crate::gate::mx(|| LeanString::from(&src)),
                        _ => crate::gate::mx(|| src.to_lean_string()),
                    };
                    let st = shim::end_call(before);
                    let extra = crate::gate::take_extra();
                    let sameptr = c.as_ptr() == src.as_ptr();
                    let eq = c == src && c.as_str() == src.as_str();
                    let rcok = c.__verif_refcount() == Some(holders);
                    let expect = src.as_str().to_string();
                    drop(src);
                    let survives = c.as_str() == expect && a.as_ref().map(|a| a.len() == len).unwrap_or(true);
                    recs.push(json!({"k":"bigclone","via":via,"owner":owner,"len":c.len(),"truncated":truncated,"dA":st.d_a + extra,"dR":st.d_r,"sameptr":sameptr,"eq":eq,"survives":survives,"rcok":rcok}));
                }
            }
        }
    }
    // ---- cloning a buffer that already has very many owners: 70 000 real handles, then every order of magnitude of the
    // count simulated through the hook (the count word set to K, one clone taken, the count restored)
    {
        let base = LeanString::from("many owners share this text, all of it");
        let before = shim::begin_call(&[]);
        crate::gate::take_extra();
        let mut crowd: Vec<LeanString> = Vec::with_capacity(70_000);
        for _ in 0..70_000 {
            crowd.push(crate::gate::mx(|| base.clone()));
        }
        let st = shim::end_call(before);
        let extra = crate::gate::take_extra();
        let sameptr = crowd.iter().all(|c| c.as_ptr() == base.as_ptr());
        let eq = crowd.iter().all(|c| c == &base);
        let rcok = base.__verif_refcount() == Some(70_001);
        let mut short = crowd.pop().unwrap();
        short.truncate(20);
        let c2 = short.clone();
        let short_ok = c2.as_ptr() == base.as_ptr() && c2 == short;
        drop(c2);
        drop(short);
        drop(crowd);
        let survives = base.__verif_refcount() == Some(1) && base == "many owners share this text, all of it";
        recs.push(json!({"k":"bigclone","via":"clone","owner":"crowd-70000","len":base.len(),"truncated":false,"dA":st.d_a + extra,"dR":st.d_r,"sameptr":sameptr && short_ok,"eq":eq,"survives":survives,"rcok":rcok}));
        for p in 4..62u32 {
            for d in [-1i64, 0, 1] {
                let k = ((1u64 << p) as i64 + d) as usize;
                for via in ["clone", "clone_from", "from_ref", "tls"] {
                    base.__verif_poke_refcount(k);
                    let before = shim::begin_call(&[]);
                    crate::gate::take_extra();
                    let c = match via {
                        "clone" => crate::gate::mx(|| base.clone()),
                        "clone_from" => {
                            let mut t = LeanString::new();
                            crate::gate::mx(|| t.clone_from(&base));
                            t
                        }
                        "from_ref" => crate::gate::mx(|| LeanString::from(&base)),
                        _ => crate::gate::mx(|| base.to_lean_string()),
                    };
                    let st = shim::end_call(before);
                    let extra = crate::gate::take_extra();
                    let sameptr = c.as_ptr() == base.as_ptr();
                    let rcok = base.__verif_refcount() == Some(k + 1);
                    let eq = c == base;
                    if sameptr {
                        drop(c);
                    } else {
                        // the copy has a buffer of its own: dropping it must not touch the crowded one
                        drop(c);
                    }
                    let back = base.__verif_refcount() == Some(k) || !sameptr;
                    base.__verif_poke_refcount(1);
                    recs.push(json!({"k":"bigclone","via":via,"owner":format!("count-2^{p}{d:+}"),"len":base.len(),"truncated":false,"dA":st.d_a + extra,"dR":st.d_r,"sameptr":sameptr,"eq":eq,"survives":back,"rcok":rcok}));
                }
            }
        }
        drop(base);
    }
    // ---- single calls on long strings, compared with String
    let nops = if thorough { 4000 } else { 800 };
    let mut s = LeanString::from("0123456789".repeat(3000).as_str());
    let mut std = s.as_str().to_string();
    let pieces = ["a", "é", "€", "𝄞", "0123456789abcdef", "xyz"];
    // every 20 calls a sibling is cloned off (and the previous one dropped): the next call works on a shared buffer
    let mut sib: Option<(LeanString, String)> = None;
    for opno in 0..nops {
        if opno % 20 == 7 {
            sib = Some((s.clone(), std.clone()));
        }
        let len = s.len();
        let (cap, ptr) = (s.capacity(), s.as_ptr() as usize);
        let mut idx = r.below(len + 1);
        while !std.is_char_boundary(idx) {
            idx -= 1;
        }
        let k = if len > 200_000 { 3 } else if len < 5_000 { 0 } else { r.below(8) };
        let piece = *r.pick(&pieces);
        let before = shim::begin_call(&[]);
        let (op, resok, added): (&str, bool, usize) = match k {
            0 => {
                let big = piece.repeat(1 + r.below(400));
                s.insert_str(idx, &big);
                std.insert_str(idx, &big);
                ("insert_str", true, big.len())
            }
            1 => {
                s.push_str(piece);
                std.push_str(piece);
                ("push_str", true, piece.len())
            }
            2 => {
                if idx < len {
                    let a = s.remove(idx);
                    let b = std.remove(idx);
                    ("remove", a == b, 0)
                } else {
                    ("remove-skip", true, 0)
                }
            }
            3 => {
                let mut m = idx.max(len / 2).min(len);
                while !std.is_char_boundary(m) {
                    m -= 1;
                }
                s.truncate(m);
                std.truncate(m);
                ("truncate", true, 0)
            }
            4 => ("pop", s.pop() == std.pop(), 0),
            5 => {
                let mut i = 0u32;
                let mut j = 0u32;
                s.retain(|_| {
                    i += 1;
                    i % 97 != 0
                });
                std.retain(|_| {
                    j += 1;
                    j % 97 != 0
                });
                ("retain", true, 0)
            }
            6 => {
                let c = piece.chars().next().unwrap();
                s.insert(idx, c);
                std.insert(idx, c);
                ("insert", true, c.len_utf8())
            }
            _ => {
                s.extend(piece.chars().cycle().take(50));
                std.extend(piece.chars().cycle().take(50));
                ("extend", true, 0)
            }
        };
        let st = shim::end_call(before);
        let fits = added > 0 && len + added <= cap;
        let others = sib.as_ref().map(|(l, t)| l.as_str() == t.as_str()).unwrap_or(true);
        recs.push(json!({"k":"bigop","op":op,"teq":s.as_str() == std,"len2":s.len(),"explen":std.len(),"cap2":s.capacity(),"resok":resok,
            "fits":fits && sib.as_ref().map(|(l, _)| l.as_ptr() != ptr as *const u8).unwrap_or(true),"dA":st.d_a,"dR":st.d_r,"sameptr":ptr == s.as_ptr() as usize,"others":others}));
    }
    drop(sib);
    drop(s);
    // ---- shrinking buffers that carry kilobytes of spare room (C13 at scale)
    for &(len, cap) in &[(48usize, 8192usize), (2, 5000), (100, 4196), (100, 4195), (5000, 20000), (17, 4200), (16, 6000), (40, 1 << 20), (3000, 3000 + 4096)] {
        let mut ms = vec![0usize, len / 2, len, len + 1, len + 50, 64, 1000, cap.saturating_sub(4097), cap.saturating_sub(4096), cap - 1, cap, cap + 10];
        ms.sort_unstable();
        ms.dedup();
        for m in ms {
            for shared in [false, true] {
                for fit in [false, true] {
                    if fit && m != 0 {
                        continue;
                    }
                    let text = "s".repeat(len);
                    let mut s = LeanString::with_capacity(cap);
                    s.push_str(&text);
                    let keep = if shared { Some(s.clone()) } else { None };
                    let cap1 = s.capacity();
                    let before = shim::begin_call(&[]);
                    let r = if fit { s.try_shrink_to_fit() } else { s.try_shrink_to(m) };
                    let _ = shim::end_call(before);
                    let others = keep.as_ref().map(|k| k.as_str() == text && k.capacity() == cap1).unwrap_or(true);
                    recs.push(json!({"k":"shrink","len":len,"cap1":cap1,"m":m,"shared":shared,"fit":fit,"ok":r.is_ok(),"cap2":s.capacity(),"heap2":s.is_heap_allocated(),
                        "teq":s.as_str() == text,"others":others}));
                }
            }
        }
    }
    // ---- texts around 2^24 bytes (the width a length field could be cut to) : every way of building one, then single calls
    for &len in &[(1usize << 24) - 1, 1 << 24, (1 << 24) + 1, (1 << 25) + 3] {
        let text = "h".repeat(len);
        let leaked: &'static str = Box::leak(text.clone().into_boxed_str());
        for how in ["from_str", "static", "with_capacity", "clone", "collect"] {
            let mut keep: Option<LeanString> = None;
            let mut s = match how {
                "from_str" => LeanString::from(text.as_str()),
                "static" => LeanString::from_static_str(leaked),
                "with_capacity" => {
                    let mut s = LeanString::with_capacity(len);
                    s.push_str(&text[..len - 1]);
                    s.push('h');
                    s
                }
                "clone" => {
                    let a = LeanString::from(text.as_str());
                    let b = a.clone();
                    keep = Some(a);
                    b
                }
                _ => [&text[..len / 2], &text[len / 2..]].into_iter().collect(),
            };
            let mut std = text.clone();
            let built = s.len() == std.len() && !s.is_empty() && s.as_bytes() == std.as_bytes();
            recs.push(json!({"k":"bigop","op":format!("huge-build:{how}"),"teq":built,"len2":s.len(),"explen":std.len(),"cap2":s.capacity(),"resok":true,"fits":false,"dA":0,"dR":0,"sameptr":true,"others":true}));
            for step in ["push", "push_str", "pop", "insert", "remove", "truncate", "clear"] {
                let resok = match step {
                    "push" => {
                        s.push('\u{20ac}');
                        std.push('\u{20ac}');
                        true
                    }
                    "push_str" => {
                        s.push_str("tail");
                        std.push_str("tail");
                        true
                    }
                    "pop" => s.pop() == std.pop(),
                    "insert" => {
                        s.insert_str(len - 3, "<>");
                        std.insert_str(len - 3, "<>");
                        true
                    }
                    "remove" => s.remove(len - 3) == std.remove(len - 3),
                    "truncate" => {
                        s.truncate(len - 1);
                        std.truncate(len - 1);
                        true
                    }
                    _ => {
                        s.clear();
                        std.clear();
                        s.is_empty()
                    }
                };
                let others = keep.as_ref().map(|k| k.len() == len && k.as_bytes() == text.as_bytes()).unwrap_or(true);
                recs.push(json!({"k":"bigop","op":format!("huge-{step}:{how}"),"teq":s.as_bytes() == std.as_bytes(),"len2":s.len(),"explen":std.len(),"cap2":s.capacity(),"resok":resok,
                    "fits":false,"dA":0,"dR":0,"sameptr":true,"others":others}));
            }
        }
    }
    // ---- every way a single char gets into / out of a string, for every boundary code point and a few thousand random ones
    {
        let mut cps: Vec<u32> = vec![0, 1, 0x7e, 0x7f, 0x80, 0xbf, 0xc0, 0xff, 0x100, 0x1ff, 0x200, 0x3ff, 0x400, 0x7ff, 0x800, 0xfff, 0x1000, 0xd7ff, 0xe000, 0xfeff, 0xfffd, 0xfffe, 0xffff,
            0x10000, 0x10001, 0x1ffff, 0x20000, 0x3ffff, 0x40000, 0xfffff, 0x100000, 0x10fffe, 0x10ffff, 0x1D11E];
        for _ in 0..(if thorough { 20000 } else { 3000 }) {
            cps.push((r.next() % 0x110000) as u32);
        }
        for base in ["", "ab", "0123456789abcde", "0123456789abcdef", "0123456789abcdefg"] {
            for &cp in &cps {
                let Some(c) = char::from_u32(cp) else { continue };
                let mut s = LeanString::from(base);
                let mut t = String::from(base);
                s.push(c);
                t.push(c);
                s.insert(base.len().min(1), c);
                t.insert(base.len().min(1), c);
                s.extend([c]);
                t.extend([c]);
                s.extend([&c]);
                t.extend([&c]);
                let mut ok = s.as_bytes() == t.as_bytes();
                let col: LeanString = [c, c].into_iter().collect();
                ok &= col.as_str() == [c, c].into_iter().collect::<String>();
                ok &= LeanString::from(c).as_str() == c.to_string() && (LeanString::new() + c.encode_utf8(&mut [0; 4])).as_str() == c.to_string();
                ok &= s.pop() == t.pop() && s.remove(base.len().min(1)) == t.remove(base.len().min(1));
                let mut kept = 0;
                s.retain(|x| {
                    kept += (x == c) as usize;
                    x != c
                });
                t.retain(|x| x != c);
                ok &= s.as_bytes() == t.as_bytes() && kept >= 1;
                if !ok || cp % 977 == 0 {
                    recs.push(json!({"k":"bigop","op":format!("char U+{cp:04X} on {} bytes", base.len()),"teq":ok,"len2":s.len(),"explen":t.len(),"cap2":s.capacity(),"resok":ok,"fits":false,"dA":0,"dR":0,"sameptr":true,"others":true}));
                }
            }
        }
    }
    // ---- shortening one handle of a large shared buffer (far below a quarter of it, across every threshold): the others keep
    // their pointer, length and bytes; the short one reads its prefix; drops and later writes behave
    for &len in &[16 * 1024usize, 64 * 1024, 1 << 20] {
        let text: String = "shared-".chars().cycle().take(len).collect();
        for &cut in &[len / 2, len / 4 + 1, len / 4, len / 4 - 1, len / 8, 4096, 100, 17, 16, 1, 0] {
            for how in ["truncate", "pop"] {
                let a = LeanString::from(text.as_str());
                let c = a.clone();
                let mut b = a.clone();
                let (ptr, cap) = (a.as_ptr() as usize, a.capacity());
                if how == "truncate" {
                    b.truncate(cut);
                } else {
                    b.truncate(cut + 2);
                    b.pop();
                    b.pop();
                }
                let mut ok = b.as_str() == &text[..cut];
                ok &= a.as_ptr() as usize == ptr && a.capacity() == cap && a.len() == len && a.as_str() == text;
                ok &= c.as_ptr() as usize == ptr && c.as_str() == text && a.__verif_refcount().map(|n| n == 3 || (n == 2 && !b.is_heap_allocated())).unwrap_or(false);
                b.push('!');
                ok &= b.len() == cut + 1 && b.as_str().ends_with('!') && a.as_str() == text;
                drop(b);
                ok &= a.as_str() == text && c.as_str() == text;
                drop(a);
                ok &= c.as_str() == text && c.__verif_refcount() == Some(1);
                recs.push(json!({"k":"bigop","op":format!("shared-{how} {len} -> {cut}"),"teq":ok,"len2":c.len(),"explen":len,"cap2":c.capacity(),"resok":ok,"fits":false,"dA":0,"dR":0,"sameptr":true,"others":ok}));
            }
        }
    }
    // ---- long static texts (C10 at scale): borrowed, cloned, shortened without a copy; the first write moves the handle
    for &len in &[17usize, 100, 4095, 4096, 4097, 100_000, 1 << 20] {
        let pat = "st\u{e9}";
        let full: String = pat.chars().cycle().take(len).collect::<String>();
        let end = full.char_indices().map(|(i, _)| i).take_while(|&i| i <= len).last().unwrap_or(0);
        let leaked: &'static str = Box::leak(full[..end].to_string().into_boxed_str());
        let base = leaked.as_ptr();
        let before = shim::begin_call(&[]);
        crate::gate::take_extra();
        let mut s = crate::gate::mx(|| LeanString::from_static_str(leaked));
        let ctor = s.as_ptr() == base && !s.is_heap_allocated() && s.capacity() == leaked.len();
        let c = crate::gate::mx(|| s.clone());
        let cloned = c.as_ptr() == base && c == leaked;
        let cut = leaked.char_indices().map(|(i, _)| i).take_while(|&i| i <= leaked.len() / 2).last().unwrap();
        crate::gate::mx(|| s.truncate(cut));
        let truncated = s.as_ptr() == base && s.as_str() == &leaked[..cut] && s.capacity() == cut;
        let popped_ch = crate::gate::mx(|| s.pop());
        let popped = s.as_ptr() == base && popped_ch == leaked[..cut].chars().next_back();
        let mut t = c.clone();
        crate::gate::mx(|| t.clear());
        let cleared = t.is_empty() && !t.is_heap_allocated();
        let st0 = shim::end_call(before);
        let quiet = st0.d_a + st0.d_r + crate::gate::take_extra() == 0;
        let expect = format!("{}!", s.as_str());
        s.push('!');
        let moved = s.as_ptr() != base && s.as_str() == expect && c == leaked;
        let pristine = leaked.chars().eq(pat.chars().cycle().take(leaked.chars().count()));
        recs.push(json!({"k":"bigstatic","len":leaked.len(),"ctor":ctor,"cloned":cloned,"truncated":truncated,"popped":popped,"cleared":cleared,"quiet":quiet,"moved":moved,"pristine":pristine}));
    }
    // ---- unsatisfiable sizes on long targets (C06 at scale): a page or more of text, every kind of owner
    let sizes_for = |len: usize| -> Vec<(String, usize)> {
        let mut v = vec![];
        for k in [0usize, 1, 2, 15, 16, 17, 100, 4000, 4079, 4080, 4081, 4095, 4096, 4097, 8192, 65536] {
            v.push((format!("MAX-len-{k}"), usize::MAX - len - k));
            v.push((format!("MAX-{k}"), usize::MAX - k));
        }
        for j in 0..5usize {
            v.push((format!("2^56-1-len{:+}", j as i64 - 2), (1usize << 56) - 1 - len + j - 2));
            v.push((format!("isize::MAX-len{:+}", j as i64 - 2), isize::MAX as usize - len + j - 2));
            v.push((format!("isize::MAX{:+}", j as i64 - 2), isize::MAX as usize + j - 2));
        }
        for p in [31usize, 40, 47, 48, 55, 56, 57, 62, 63] {
            v.push((format!("2^{p}"), 1usize << p));
        }
        v
    };
    for &len in &[4095usize, 4096, 4097, 65536] {
        for state in ["unique", "shared", "cut", "static"] {
            let text = "L".repeat(len);
            let leaked: &'static str = Box::leak(text.clone().into_boxed_str());
            for (class, size) in sizes_for(len) {
                for hint in [false, true] {
                    let (mut s, keep): (LeanString, Option<LeanString>) = match state {
                        "unique" => (LeanString::from(text.as_str()), None),
                        "shared" => {
                            let a = LeanString::from(text.as_str());
                            (a.clone(), Some(a))
                        }
                        "cut" => {
                            let a = LeanString::from(format!("{text}and a tail that the other handle still reads").as_str());
                            let mut b = a.clone();
                            b.truncate(len);
                            (b, Some(a))
                        }
                        _ => (LeanString::from_static_str(leaked), None),
                    };
                    let (ptr, cap) = (s.as_ptr() as usize, s.capacity());
                    let keep_text = keep.as_ref().map(|k| k.as_str().to_string());
                    let before = shim::begin_call(&[]);
                    let out = std::panic::catch_unwind(std::panic::AssertUnwindSafe(|| {
                        if hint {
                            struct Liar(usize, std::str::Chars<'static>);
                            impl Iterator for Liar {
                                type Item = char;
                                fn next(&mut self) -> Option<char> {
                                    self.1.next()
                                }
                                fn size_hint(&self) -> (usize, Option<usize>) {
                                    (self.0, None)
                                }
                            }
                            s.extend(Liar(size, "xy".chars()));
                            Ok(())
                        } else {
                            s.try_reserve(size)
                        }
                    }));
                    let _ = shim::end_call(before);
                    let cls = match &out {
                        Ok(Ok(())) => "ok",
                        Ok(Err(_)) => "err",
                        Err(_) => "panic",
                    };
                    let expect = if hint { format!("{text}xy") } else { text.clone() };
                    let same = hint || (s.as_ptr() as usize == ptr && s.capacity() == cap);
                    let others = match (&keep, &keep_text) {
                        (Some(k), Some(t)) => k.as_str() == t,
                        _ => true,
                    };
                    recs.push(json!({"k":"bigsize","len":len,"state":state,"class":class,"hint":hint,"cls":cls,"teq":s.as_str() == expect,"same":same,"others":others,
                        "capok":s.capacity() >= s.len()}));
                }
            }
        }
    }
    let errs = shim::finish_history();
    let mut out = std::io::BufWriter::new(std::fs::File::create(format!("{out_dir}/conv_000.ndjson")).unwrap());
    for rec in &recs {
        writeln!(out, "{}", rec).unwrap();
    }
    out.flush().unwrap();
    let mut counts: BTreeMap<String, u64> = BTreeMap::new();
    for rec in &recs {
        *counts.entry(format!("{}", rec["k"].as_str().unwrap())).or_default() += 1;
    }
    let samples: Vec<&Value> = recs.iter().filter(|r| r["k"] == "grow").step_by(17).take(3).chain(recs.iter().filter(|r| r["k"] == "loop").take(2)).collect();
    let summary = json!({"records":recs.len(),"counts":counts,"end_errors":errs,"samples":samples});
    std::fs::write(format!("{out_dir}/conv_summary.json"), serde_json::to_string_pretty(&summary).unwrap()).unwrap();
    println!("scale: records={}", recs.len());
    0
}
