//! Pipeline D: TLC's schedules replayed on real threads.
//!
//! Input (stdin): TLC's output for spec/MC_Conc.tla. Every `"SCHED {json}"` line is one finished
//! execution of the concurrent model: the programs of the threads, how many handles each owns at
//! the start, who borrows thread 1's handle, and the schedule (sequence of {t, a}: thread and
//! micro action) that leads there. `"CEX {json}"` lines are counterexample schedules.
//!
//! Each one is executed on real OS threads. Every hook of the crate that touches the shared
//! buffer X (atomic operation on its count, fence after such an operation, access to its bytes,
//! its reallocation or release) is a gate: the thread blocks until the schedule's next entry names
//! it, so the real execution is the model's interleaving. The shadow heap poisons and quarantines
//! freed blocks; the event log (who did which atomic / access, with which ordering and result) is
//! written out for spec/HBMonitor.tla, which recomputes happens-before and reports races,
//! use-after-free and double frees of the execution as recorded.

use crate::gate;
use crate::shim;
use lean_string::LeanString;
use serde_json::{Value, json};
use std::io::{BufRead, Write};
use std::sync::Mutex;

pub const TEXT: &str = "abcdefghijklmnopqrstuvwxyz";
pub const CAP: usize = 40;

fn new_x() -> LeanString {
    let mut s = LeanString::with_capacity(CAP);
    s.push_str(TEXT);
    s
}

/// what one thread reports back
#[derive(Default, Debug)]
struct ThreadOut {
    mismatches: Vec<String>,
    ops_done: Vec<String>,
    panicked: Option<String>,
}

static OUTS: Mutex<Vec<(usize, ThreadOut)>> = Mutex::new(Vec::new());

struct Hs {
    /// handles with their sequential shadow (what a String driven through the same calls holds)
    v: Vec<(LeanString, String)>,
    x_text_ptr: usize,
}

impl Hs {
    fn on_x(&self, s: &LeanString) -> bool {
        s.is_heap_allocated() && s.as_ptr() as usize == self.x_text_ptr
    }
    fn pick(&self) -> Option<usize> {
        self.v.iter().position(|(s, _)| self.on_x(s))
    }
}

fn check(out: &mut ThreadOut, what: &str, s: &LeanString, shadow: &str) {
    if s.as_str() != shadow {
        out.mismatches.push(format!("{what}: reads {:?}, sequential result is {:?}", String::from_utf8_lossy(s.as_bytes()), shadow));
    }
}

fn noted_read(s: &LeanString) -> Vec<u8> {
    // the user's own read of the text: a gate, an access note, then the bytes
    gate::turn_at(lean_string::verif_hooks::Site::Access, s.as_ptr() as usize);
    shim::note_access("read", s.as_ptr() as usize, s.len());
    s.as_bytes().to_vec()
}

fn run_op(op: &str, hs: &mut Hs, lent: Option<&LeanString>, out: &mut ThreadOut) {
    match op {
        "readb" => {
            if let Some(l) = lent {
                let b = noted_read(l);
                if b != TEXT.as_bytes() {
                    out.mismatches.push(format!("readb: borrowed handle reads {:?}", String::from_utf8_lossy(&b)));
                }
                out.ops_done.push(op.into());
            }
            return;
        }
        "cloneb" => {
            if let Some(l) = lent {
                let c = l.clone();
                hs.v.push((c, TEXT.to_string()));
                out.ops_done.push(op.into());
            }
            return;
        }
        // clone_from(&lent) into an own handle of X
        "cfromb" => {
            if let (Some(l), Some(i)) = (lent, hs.pick()) {
                hs.v[i].0.clone_from(l);
                hs.v[i].1 = TEXT.to_string();
                out.ops_done.push(op.into());
                let (s, sh) = &hs.v[i];
                check(out, op, s, sh);
            }
            return;
        }
        // clone_from between two own handles of X
        "cfrom" => {
            let on: Vec<usize> = (0..hs.v.len()).filter(|&i| hs.on_x(&hs.v[i].0)).collect();
            if on.len() >= 2 {
                let (i, j) = (on[0], on[1]);
                let (a, b) = hs.v.split_at_mut(j);
                a[i].0.clone_from(&b[0].0);
                a[i].1 = b[0].1.clone();
                out.ops_done.push(op.into());
                let (s, sh) = &hs.v[i];
                check(out, op, s, sh);
            }
            return;
        }
        _ => {}
    }
    // thread 1 may read / clone through its lent handle while it is lent
    if hs.pick().is_none() {
        if let (Some(l), true) = (lent, (op == "read" || op == "clone") && gate::tid() == 1) {
            if op == "read" {
                let b = noted_read(l);
                if b != TEXT.as_bytes() {
                    out.mismatches.push(format!("read(lent): reads {:?}", String::from_utf8_lossy(&b)));
                }
            } else {
                hs.v.push((l.clone(), TEXT.to_string()));
            }
            out.ops_done.push(op.into());
        }
        return; // nothing left on X: the model skips the op as well
    }
    let i = hs.pick().unwrap();
    out.ops_done.push(op.into());
    match op {
        "clone" => {
            let c = hs.v[i].0.clone();
            let sh = hs.v[i].1.clone();
            hs.v.push((c, sh));
        }
        "read" => {
            let b = noted_read(&hs.v[i].0);
            if b != hs.v[i].1.as_bytes() {
                out.mismatches.push(format!("read: reads {:?}, sequential result is {:?}", String::from_utf8_lossy(&b), hs.v[i].1));
            }
        }
        "drop" => {
            let (s, _) = hs.v.remove(i);
            drop(s);
        }
        "push" => {
            hs.v[i].0.push('!');
            hs.v[i].1.push('!');
        }
        "reserve" => {
            hs.v[i].0.reserve(100);
        }
        "trunc" => {
            hs.v[i].0.pop();
            hs.v[i].1.pop();
        }
        "rm" => {
            if !hs.v[i].1.is_empty() {
                hs.v[i].0.remove(0);
                hs.v[i].1.remove(0);
            }
        }
        "clear" => {
            hs.v[i].0.clear();
            hs.v[i].1.clear();
        }
        "shrink" => {
            hs.v[i].0.shrink_to_fit();
        }
        other => out.mismatches.push(format!("harness: unknown op {other}")),
    }
    if let Some((s, sh)) = hs.v.get(i) {
        if op != "drop" {
            check(out, op, s, sh);
        }
    }
}

fn thread_main(tid: usize, prog: Vec<String>, handles: Vec<LeanString>, lent: Option<&LeanString>, x_text_ptr: usize) -> Vec<(LeanString, String)> {
    gate::set_tid(tid);
    let mut out = ThreadOut::default();
    let mut hs = Hs { v: handles.into_iter().map(|h| (h, TEXT.to_string())).collect(), x_text_ptr };
    let r = std::panic::catch_unwind(std::panic::AssertUnwindSafe(|| {
        for op in prog.iter() {
            if op == "join" {
                break;
            }
            run_op(op, &mut hs, lent, &mut out);
        }
    }));
    if let Err(p) = r {
        out.panicked = Some(p.downcast_ref::<String>().cloned().or_else(|| p.downcast_ref::<&str>().map(|s| s.to_string())).unwrap_or_default());
    }
    // whatever is left is checked once more and handed back (dropped by the caller's choice)
    for (s, sh) in hs.v.iter() {
        if !hs.on_x(s) || true {
            check(&mut out, "final", s, sh);
        }
    }
    OUTS.lock().unwrap().push((tid, out));
    hs.v
}

pub struct RunResult {
    pub granted: Vec<(usize, String)>,
    pub pos: usize,
    pub followed: bool,
    pub desync: bool,
    pub label_mismatches: usize,
    pub shim_errors: Vec<String>,
    pub result_mismatches: Vec<String>,
    pub events: Vec<Value>,
    pub orderings: Value,
}

static RUN_STARTED_MS: std::sync::atomic::AtomicU64 = std::sync::atomic::AtomicU64::new(0);
static WATCHDOG: std::sync::Once = std::sync::Once::new();
fn now_ms() -> u64 {
    std::time::SystemTime::now().duration_since(std::time::UNIX_EPOCH).unwrap().as_millis() as u64
}

/// Executes one model execution on real threads. A run that does not finish within 30 s takes
/// the process down (exit 3): bin/check then repeats the replay with one process per schedule.
pub fn run_schedule(v: &Value) -> RunResult {
    use std::sync::atomic::Ordering::Relaxed;
    WATCHDOG.call_once(|| {
        std::thread::spawn(|| loop {
            std::thread::sleep(std::time::Duration::from_millis(250));
            let s = RUN_STARTED_MS.load(Relaxed);
            if s != 0 && now_ms().saturating_sub(s) > 30_000 {
                eprintln!("lsverif: a schedule did not finish within 30 s; giving up on in-process replay");
                std::process::exit(3);
            }
        });
    });
    RUN_STARTED_MS.store(now_ms(), Relaxed);
    let r = run_schedule_inner(v);
    RUN_STARTED_MS.store(0, Relaxed);
    r
}

fn run_schedule_inner(v: &Value) -> RunResult {
    let progs: Vec<Vec<String>> = serde_json::from_value(v["progs"].clone()).unwrap();
    let own0: Vec<usize> = serde_json::from_value(v["own0"].clone()).unwrap();
    let borrowers: Vec<usize> = serde_json::from_value(v["borrowers"].clone()).unwrap();
    let sched: Vec<(usize, String)> = v["sched"].as_array().unwrap().iter().map(|e| (e["t"].as_u64().unwrap() as usize, e["a"].as_str().unwrap().to_string())).collect();
    let n = progs.len();

    shim::begin_call(&[]);
    shim::set_record_events(true);
    OUTS.lock().unwrap().clear();
    // ---- setup on the main thread (ungated): X and the handles
    let base = new_x();
    let x_text_ptr = base.as_ptr() as usize;
    let xblk = shim::find_block(x_text_ptr - shim::HEADER).expect("X is a shim block");
    let mut handles: Vec<Vec<LeanString>> = (0..n).map(|_| vec![]).collect();
    for t in 0..n {
        for _ in 0..own0[t] {
            handles[t].push(base.clone());
        }
    }
    let lent: Option<LeanString> = if borrowers.is_empty() { None } else { Some(base.clone()) };
    drop(base);
    shim::set_tracked_block(Some((xblk.user, xblk.size, xblk.id)));
    shim::mark("spawn");
    let setup = shim::take_events();
    gate::install(sched.iter().map(|(t, a)| (*t, a.clone())).collect(), n);

    // ---- the threads
    let mut leftovers: Vec<Vec<(LeanString, String)>> = vec![];
    if let Some(lent) = lent {
        // thread 1 lends `lent` by reference to the borrowers for their whole program
        let p1 = progs[0].clone();
        let split = p1.iter().position(|o| o == "join").unwrap_or(p1.len());
        let (pre, post) = (p1[..split].to_vec(), if split < p1.len() { p1[split + 1..].to_vec() } else { vec![] });
        let h1 = std::mem::take(&mut handles[0]);
        let mut mine: Vec<(LeanString, String)> = vec![];
        std::thread::scope(|s| {
            let lr = &lent;
            let mut js = vec![];
            for t in 1..n {
                let prog = progs[t].clone();
                let hs = std::mem::take(&mut handles[t]);
                let is_b = borrowers.contains(&(t + 1));
                js.push(s.spawn(move || {
                    let left = thread_main(t + 1, prog, hs, if is_b { Some(lr) } else { None }, x_text_ptr);
                    gate::finish();
                    left
                }));
            }
            // thread 1, before the join
            mine = thread_main(1, pre, h1, Some(lr), x_text_ptr);
            gate::pause();
            for j in js {
                leftovers.push(j.join().unwrap());
            }
            gate::set_tid(1);
            gate::resume();
            shim::mark("join");
        });
        // after the join the lent handle is thread 1's own again
        gate::set_tid(1);
        let mut hs: Vec<LeanString> = mine.into_iter().map(|(s, _)| s).collect();
        hs.insert(0, lent);
        let left = thread_main(1, post, hs, None, x_text_ptr);
        gate::finish();
        gate::set_tid(0);
        leftovers.push(left);
    } else {
        let mut js = vec![];
        for t in 0..n {
            let prog = progs[t].clone();
            let hs = std::mem::take(&mut handles[t]);
            js.push(std::thread::spawn(move || {
                let left = thread_main(t + 1, prog, hs, None, x_text_ptr);
                gate::finish();
                left
            }));
        }
        for j in js {
            leftovers.push(j.join().unwrap());
        }
    }
    let g = gate::uninstall().unwrap();
    shim::mark("join");
    drop(leftovers);
    shim::set_tracked_block(None);
    let st = shim::end_call((0, 0, 0));
    shim::set_record_events(false);
    let mut shim_errors = st.errors.clone();
    shim_errors.extend(shim::finish_history());

    // ---- collect
    let mut result_mismatches = vec![];
    for (tid, o) in OUTS.lock().unwrap().iter() {
        for m in &o.mismatches {
            result_mismatches.push(format!("T{tid} {m}"));
        }
        if let Some(p) = &o.panicked {
            result_mismatches.push(format!("T{tid} panicked: {p}"));
        }
    }
    let mut events: Vec<Value> = vec![];
    // setup ran before X was tracked: its events on X's block are X's (ids are not reused yet)
    let setup: Vec<shim::Ev> = setup.into_iter().map(|mut e| { if e.blk == xblk.id { e.x = true; } e }).collect();
    for e in setup.iter().chain(st.events.iter()) {
        events.push(json!({"t":e.tid,"k":e.kind,"o":e.order,"v":e.val,"b":e.blk,"x":e.x}));
    }
    // orderings observed on X per kind of site
    let mut ords = json!({});
    for e in st.events.iter().filter(|e| e.x || e.kind == "fence") {
        let key = match e.kind {
            "rmw+" => "rmw+",
            "rmw-" => "rmw-",
            "load" => "load",
            "fence" => "fence",
            _ => continue,
        };
        let cur = ords[key].as_array().cloned().unwrap_or_default();
        if !cur.iter().any(|o| o == e.order) {
            let mut c = cur;
            c.push(json!(e.order));
            ords[key] = json!(c);
        }
    }
    RunResult {
        granted: g.granted.clone(),
        pos: g.pos,
        followed: !g.desync && g.label_mismatches == 0 && g.pos >= g.schedule.len(),
        desync: g.desync,
        label_mismatches: g.label_mismatches,
        shim_errors,
        result_mismatches,
        events,
        orderings: ords,
    }
}

impl RunResult {
    fn to_json(&self) -> Value {
        json!({"granted":self.granted,"pos":self.pos,"followed":self.followed,"desync":self.desync,"label_mismatches":self.label_mismatches,
               "shim":self.shim_errors,"results":self.result_mismatches,"events":self.events,"orderings":self.orderings})
    }
    fn from_json(v: &Value) -> RunResult {
        RunResult {
            granted: serde_json::from_value(v["granted"].clone()).unwrap_or_default(),
            pos: v["pos"].as_u64().unwrap_or(0) as usize,
            followed: v["followed"] == true,
            desync: v["desync"] == true,
            label_mismatches: v["label_mismatches"].as_u64().unwrap_or(0) as usize,
            shim_errors: serde_json::from_value(v["shim"].clone()).unwrap_or_default(),
            result_mismatches: serde_json::from_value(v["results"].clone()).unwrap_or_default(),
            events: v["events"].as_array().cloned().unwrap_or_default(),
            orderings: v["orderings"].clone(),
        }
    }
}

/// `lsverif conc-one`: one schedule (JSON on stdin) in this process; the result as JSON on stdout.
pub fn run_one_child() -> i32 {
    let mut s = String::new();
    std::io::stdin().read_line(&mut s).unwrap();
    let v: Value = serde_json::from_str(&s).expect("schedule json");
    let r = run_schedule(&v);
    println!("{}", r.to_json());
    0
}

/// Runs a schedule in a child process: an abort of the code under test is a result, not a crash of the harness.
fn run_isolated(v: &Value) -> RunResult {
    use std::process::{Command, Stdio};
    let mut child = Command::new(std::env::current_exe().unwrap()).arg("conc-one").stdin(Stdio::piped()).stdout(Stdio::piped()).stderr(Stdio::null()).spawn().expect("spawn conc-one");
    {
        let mut tx = child.stdin.take().unwrap();
        let _ = writeln!(tx, "{}", v);
    }
    // a run that does not finish within 20 s is a finding (hang), not a reason to hang the check
    let t0 = std::time::Instant::now();
    loop {
        match child.try_wait() {
            Ok(Some(_)) => break,
            Ok(None) if t0.elapsed().as_secs() >= 20 => {
                let _ = child.kill();
                let _ = child.wait();
                return RunResult { granted: vec![], pos: 0, followed: false, desync: true, label_mismatches: 0,
                    shim_errors: vec!["hang:the execution on real threads did not finish within 20 s".into()], result_mismatches: vec![], events: vec![], orderings: json!({}) };
            }
            Ok(None) => std::thread::sleep(std::time::Duration::from_millis(2)),
            Err(_) => break,
        }
    }
    let out = child.wait_with_output().unwrap();
    let text = String::from_utf8_lossy(&out.stdout);
    match text.lines().last().and_then(|l| serde_json::from_str::<Value>(l).ok()) {
        Some(j) if out.status.success() => RunResult::from_json(&j),
        _ => RunResult {
            granted: vec![],
            pos: 0,
            followed: false,
            desync: false,
            label_mismatches: 0,
            shim_errors: vec![format!("abort:the code under test took the process down ({})", out.status)],
            result_mismatches: vec![],
            events: vec![],
            orderings: json!({}),
        },
    }
}

pub fn run(out_dir: &str, sample_every: usize, max_runs: usize, isolate: bool) -> i32 {
    std::fs::create_dir_all(out_dir).unwrap();
    let stdin = std::io::stdin();
    let mut tlc_tail: Vec<String> = vec![];
    let (mut scheds, mut runs, mut followed, mut desync, mut cex) = (0u64, 0u64, 0u64, 0u64, 0u64);
    let mut ev_out = std::io::BufWriter::new(std::fs::File::create(format!("{out_dir}/events.ndjson")).unwrap());
    let mut findings: Vec<Value> = vec![];
    let mut samples: Vec<Value> = vec![];
    let mut ords_all = json!({});
    let mut logged = 0u64;
    let mut cex_list: Vec<Value> = vec![];
    let mut unfollowed: Vec<Value> = vec![];
    for line in stdin.lock().lines() {
        let Ok(line) = line else { continue };
        if !line.starts_with('"') {
            if tlc_tail.len() > 300 {
                tlc_tail.remove(0);
            }
            tlc_tail.push(line);
            continue;
        }
        let Ok(inner) = serde_json::from_str::<String>(&line) else { continue };
        let (kind, j) = if let Some(j) = inner.strip_prefix("SCHED ") {
            ("sched", j)
        } else if let Some(j) = inner.strip_prefix("CEX ") {
            ("cex", j)
        } else {
            continue;
        };
        let v: Value = serde_json::from_str(j).unwrap();
        scheds += 1;
        if kind == "cex" {
            cex += 1;
            if cex_list.len() < 20 {
                cex_list.push(v.clone());
            }
        }
        if kind == "sched" && max_runs > 0 && runs as usize >= max_runs {
            continue;
        }
        runs += 1;
        let r = if isolate || kind == "cex" { run_isolated(&v) } else { run_schedule(&v) };
        if r.followed {
            followed += 1;
        }
        if r.desync {
            desync += 1;
        }
        for (k, vals) in r.orderings.as_object().into_iter().flatten() {
            let mut cur = ords_all[k].as_array().cloned().unwrap_or_default();
            for o in vals.as_array().unwrap() {
                if !cur.contains(o) {
                    cur.push(o.clone());
                }
            }
            ords_all[k] = json!(cur);
        }
        let bad = !r.shim_errors.is_empty() || !r.result_mismatches.is_empty();
        if bad && findings.len() < 40 {
            findings.push(json!({"kind":kind,"progs":v["progs"],"own0":v["own0"],"borrowers":v["borrowers"],"sched":v["sched"],"model_err":v["err"],
                "shim":r.shim_errors,"results":r.result_mismatches,"followed":r.followed}));
        }
        // event log for the happens-before monitor: every finding, every counterexample, a sample of the rest
        if bad || kind == "cex" || (sample_every == 1 || (sample_every > 1 && runs as usize % sample_every == 1)) {
            logged += 1;
            writeln!(ev_out, "{}", json!({"ev":"init","n":v["progs"].as_array().unwrap().len(),"kind":kind,"progs":v["progs"],"sched":v["sched"],"followed":r.followed,"bad":bad})).unwrap();
            for e in &r.events {
                writeln!(ev_out, "{}", json!({"ev":"e","t":e["t"],"k":e["k"],"o":e["o"],"v":e["v"],"x":e["x"]})).unwrap();
            }
            writeln!(ev_out, "{}", json!({"ev":"end","shim":r.shim_errors,"results":r.result_mismatches})).unwrap();
        }
        if !r.followed && unfollowed.len() < 6 {
            unfollowed.push(json!({"progs":v["progs"],"own0":v["own0"],"borrowers":v["borrowers"],"sched":v["sched"],"granted":r.granted,"pos":r.pos,"desync":r.desync,"label_mismatches":r.label_mismatches}));
        }
        if samples.len() < 4 {
            samples.push(json!({"progs":v["progs"],"sched":v["sched"],"followed":r.followed}));
        }
    }
    ev_out.flush().unwrap();
    let summary = json!({"schedules":scheds,"runs":runs,"followed":followed,"desync":desync,"cex":cex,"findings":findings,"orderings":ords_all,
        "logged_runs":logged,"samples":samples,"cex_list":cex_list,"unfollowed":unfollowed,"tlc_tail":tlc_tail});
    std::fs::write(format!("{out_dir}/conc_summary.json"), serde_json::to_string_pretty(&summary).unwrap()).unwrap();
    println!("conc: schedules={scheds} runs={runs} followed={followed} desync={desync} findings={} cex={cex}", findings.len());
    0
}

/// Single-threaded probe: which micro events (and orderings) each operation performs on a
/// unique and on a shared buffer. Feeds the constants of the concurrent model.
pub fn probe() -> i32 {
    let mut out = json!({});
    for (name, shared) in [("unique", false), ("shared", true)] {
        for op in ["clone", "drop", "push", "reserve", "trunc", "clear", "shrink", "rm", "retain"] {
            shim::begin_call(&[]);
            shim::set_record_events(true);
            let mut a = new_x();
            let keep = if shared { Some(a.clone()) } else { None };
            let blk = shim::find_block(a.as_ptr() as usize - shim::HEADER).unwrap();
            shim::take_events();
            match op {
                "clone" => {
                    let c = a.clone();
                    shim::take_events_into(&mut out, name, op, blk.id);
                    drop(c);
                }
                "drop" => {
                    drop(a);
                    shim::take_events_into(&mut out, name, op, blk.id);
                    a = LeanString::new();
                }
                "push" => {
                    a.push('!');
                    shim::take_events_into(&mut out, name, op, blk.id);
                }
                "reserve" => {
                    a.reserve(100);
                    shim::take_events_into(&mut out, name, op, blk.id);
                }
                "trunc" => {
                    a.pop();
                    shim::take_events_into(&mut out, name, op, blk.id);
                }
                "clear" => {
                    a.clear();
                    shim::take_events_into(&mut out, name, op, blk.id);
                }
                "shrink" => {
                    a.shrink_to_fit();
                    shim::take_events_into(&mut out, name, op, blk.id);
                }
                "rm" => {
                    a.remove(0);
                    shim::take_events_into(&mut out, name, op, blk.id);
                }
                "retain" => {
                    a.retain(|c| c != 'b');
                    shim::take_events_into(&mut out, name, op, blk.id);
                }
                _ => {}
            }
            drop(keep);
            drop(a);
            shim::set_record_events(false);
            shim::end_call((0, 0, 0));
            shim::finish_history();
        }
    }
    println!("{}", serde_json::to_string_pretty(&out).unwrap());
    0
}
