//! Pipeline C drivers: random histories on the real crate, recorded as traces for the TLC
//! monitor (spec/Trace.tla), and re-execution of a recorded history (`rerun`).

use crate::pool::{Op, Pool, call_json};
use crate::trace::TraceWriter;
use serde_json::{Value, json};
use std::collections::BTreeMap;

pub struct Rng(u64);
impl Rng {
    pub fn new(seed: u64) -> Rng {
        Rng(seed.wrapping_mul(0x9E3779B97F4A7C15) ^ 0xD1B54A32D192ED03)
    }
    pub fn next(&mut self) -> u64 {
        // splitmix64
        self.0 = self.0.wrapping_add(0x9E3779B97F4A7C15);
        let mut z = self.0;
        z = (z ^ (z >> 30)).wrapping_mul(0xBF58476D1CE4E5B9);
        z = (z ^ (z >> 27)).wrapping_mul(0x94D049BB133111EB);
        z ^ (z >> 31)
    }
    pub fn below(&mut self, n: usize) -> usize {
        if n == 0 { 0 } else { (self.next() % n as u64) as usize }
    }
    pub fn chance(&mut self, pct: usize) -> bool {
        self.below(100) < pct
    }
    pub fn pick<'a, T>(&mut self, xs: &'a [T]) -> &'a T {
        &xs[self.below(xs.len())]
    }
}

const CHARS: &[&str] = &["a", "b", "z", "0", " ", "\u{7f}", "\0", "é", "ß", "\u{80}", "\u{7ff}", "€", "世", "\u{ffff}", "𝄞", "🦀", "\u{10ffff}"];
const LENS: &[usize] = &[0, 1, 1, 2, 3, 5, 8, 13, 14, 15, 15, 16, 16, 16, 17, 17, 18, 20, 24, 31, 33, 48, 64, 16, 17, 15, 100, 257];

pub fn statics() -> Vec<Vec<u8>> {
    vec![
        "Static text 18 b€!".as_bytes().to_vec(),
        "Static text 18 b€! and some more é!!!".as_bytes().to_vec(),
        "seventeen bytes!!".as_bytes().to_vec(),
        "short".as_bytes().to_vec(),
        "Static text 18 b€!".as_bytes().to_vec(), // the first one again, at another address
    ]
}

fn rand_text(r: &mut Rng, target: usize) -> Vec<u8> {
    let mut s = String::new();
    while s.len() < target {
        let c = *r.pick(CHARS);
        if s.len() + c.len() > target {
            if r.chance(50) {
                // fill up exactly with ASCII
                while s.len() < target {
                    s.push('x');
                }
            }
            break;
        }
        s.push_str(c);
    }
    s.into_bytes()
}

fn rand_index(r: &mut Rng, text: &str) -> usize {
    let len = text.len();
    if r.chance(12) {
        return len + r.below(3);
    }
    if r.chance(12) || len == 0 {
        return r.below(len + 1); // may fall inside a character
    }
    let bs: Vec<usize> = (0..=len).filter(|&i| text.is_char_boundary(i)).collect();
    *r.pick(&bs)
}

fn rand_size(r: &mut Rng, len: usize, cap: usize, sizes: bool) -> i64 {
    if sizes && r.chance(35) {
        return -(1 + r.below(3) as i64);
    }
    let room = cap.saturating_sub(len);
    let c = [0, 1, 2, room.saturating_sub(1), room, room + 1, 15usize.saturating_sub(len), 16usize.saturating_sub(len), 17usize.saturating_sub(len), 16, 17, 40, 100, len / 2, len, cap, cap + 1];
    *r.pick(&c) as i64
}

pub struct DriveCfg {
    pub out_dir: String,
    pub seed: u64,
    pub files: usize,
    pub histories: usize,
    pub ops: usize,
    pub mode: String,
    pub nh: usize,
}

fn gen_op(r: &mut Rng, pool: &Pool, mode: &str) -> Op {
    let nh = pool.ls.len();
    let fail = mode == "fail" || mode == "all";
    let sizes = mode == "sizes" || mode == "all";
    let cb = mode == "callbacks" || mode == "all" || mode == "mixed";
    let h = 1 + r.below(nh);
    let live: Vec<usize> = (1..=nh).filter(|&i| pool.ls[i - 1].is_some()).collect();
    let mut op = Op { h, ..Default::default() };
    op.x = json!([]);
    let items = |r: &mut Rng, chars: bool| -> Value {
        let n = r.below(7);
        let v: Vec<Vec<u8>> = (0..n)
            .map(|_| if chars { r.pick(CHARS).as_bytes().to_vec() } else { let l = *r.pick(&[0usize, 1, 2, 3, 5, 9, 17]); rand_text(r, l) })
            .collect();
        json!(v)
    };
    match pool.ls[h - 1].as_ref() {
        None => {
            let k = r.below(100);
            if k < 8 {
                op.op = "new".into();
            } else if k < 40 {
                op.op = "from_str".into();
                let l = *r.pick(LENS);
                op.s = rand_text(r, l);
            } else if k < 50 {
                op.op = "from_static".into();
                op.g = 1 + r.below(pool.statics.len());
            } else if k < 60 {
                op.op = "with_capacity".into();
                op.n = if sizes && r.chance(30) { -(1 + r.below(2) as i64) } else { *r.pick(&[0usize, 1, 15, 16, 17, 18, 32, 64, 100]) as i64 };
            } else if k < 65 {
                op.op = "from_char".into();
                op.s = r.pick(CHARS).as_bytes().to_vec();
            } else if k < 85 && !live.is_empty() {
                op.op = "clone".into();
                op.g = *r.pick(&live);
            } else if k < 89 {
                // raw bytes: mostly well-formed text with a few damaged places
                op.op = "from_utf8_lossy".into();
                let l = *r.pick(LENS);
                let mut b = rand_text(r, l);
                for _ in 0..r.below(3) {
                    if !b.is_empty() {
                        let i = r.below(b.len());
                        match r.below(3) {
                            0 => b[i] = *r.pick(&[0x80u8, 0xbf, 0xc0, 0xc2, 0xe0, 0xed, 0xf0, 0xf4, 0xf5, 0xff]),
                            1 => {
                                b.truncate(i);
                            }
                            _ => b.insert(i, *r.pick(&[0x80u8, 0xa0, 0xe2, 0xf0])),
                        }
                    }
                }
                op.s = b;
            } else if k < 92 {
                op.op = if r.chance(50) { "from_utf16".into() } else { "from_utf16_lossy".into() };
                let n = *r.pick(&[0usize, 1, 2, 5, 8, 9, 16, 17, 20]);
                let u: Vec<u16> = (0..n).map(|_| *r.pick(&[0x41u16, 0x41, 0xe9, 0x20ac, 0xd83d, 0xde00, 0xd800, 0xdc00, 0xffff, 0x0])).collect();
                op.x = json!(u);
            } else {
                op.op = "collect".into();
                op.v = if r.chance(60) { "chars".into() } else { "strs".into() };
                op.x = items(r, op.v == "chars");
                if op.v == "chars" {
                    op.n = if sizes && r.chance(30) { -(1 + r.below(2) as i64) } else { *r.pick(&[0usize, 0, 3, 16, 17, 40]) as i64 };
                }
                if cb && r.chance(15) {
                    op.m = 1 + r.below(op.x.as_array().unwrap().len() + 1) as i64;
                }
            }
        }
        Some(s) => {
            let text = s.as_str();
            let len = s.len();
            let cap = s.capacity();
            let k = if len > 160 { 80 + r.below(20) } else { r.below(100) };
            if k < 18 {
                op.op = "push_str".into();
                let l = *r.pick(&[0usize, 1, 1, 2, 3, 4, 7, 16usize.saturating_sub(len), 17usize.saturating_sub(len), cap.saturating_sub(len), cap.saturating_sub(len) + 1, 20]);
                op.s = if r.chance(40) { r.pick(CHARS).as_bytes().to_vec() } else { rand_text(r, l.min(40)) };
            } else if k < 30 {
                op.op = "insert_str".into();
                op.n = rand_index(r, text) as i64;
                op.s = if r.chance(50) { r.pick(CHARS).as_bytes().to_vec() } else { let l = *r.pick(&[0usize, 1, 2, 5, 17]); rand_text(r, l) };
            } else if k < 38 {
                op.op = "pop".into();
            } else if k < 46 {
                op.op = "remove".into();
                op.n = rand_index(r, text) as i64;
            } else if k < 54 {
                op.op = "truncate".into();
                op.n = rand_index(r, text) as i64;
            } else if k < 58 {
                op.op = "clear".into();
            } else if k < 64 {
                op.op = "retain".into();
                let n = text.chars().count();
                let d: Vec<i64> = (0..n).map(|_| if cb && r.chance(4) { 2 } else if r.chance(60) { 1 } else { 0 }).collect();
                op.x = json!(d);
            } else if k < 72 {
                op.op = "reserve".into();
                op.n = rand_size(r, len, cap, sizes);
                if op.n == -3 && len == 0 {
                    op.n = -2;
                }
            } else if k < 80 {
                op.op = "shrink_to".into();
                op.n = rand_size(r, len, cap, sizes);
                if op.n == -3 {
                    op.n = -2;
                }
            } else if k < 86 {
                op.op = "extend".into();
                op.v = if r.chance(60) { "chars".into() } else { "strs".into() };
                op.x = items(r, op.v == "chars");
                if op.v == "chars" {
                    op.n = if sizes && r.chance(30) { -(1 + r.below(3) as i64) } else { *r.pick(&[0usize, 0, 1, 3, 16, 40]) as i64 };
                    if op.n == -3 && len == 0 {
                        op.n = -2;
                    }
                }
                if cb && r.chance(15) {
                    op.m = 1 + r.below(op.x.as_array().unwrap().len() + 1) as i64;
                }
            } else if k < 90 {
                op.op = "drop".into();
            } else if k < 93 && live.len() > 1 {
                op.op = "compare".into();
                let others: Vec<usize> = live.iter().copied().filter(|&g| g != h).collect();
                op.g = *r.pick(&others);
            } else {
                let others: Vec<usize> = live.iter().copied().filter(|&g| g != h).collect();
                if others.is_empty() {
                    op.op = "pop".into();
                } else {
                    op.op = "clone_from".into();
                    op.g = *r.pick(&others);
                }
            }
        }
    }
    // (also on calls that should not allocate at all, and on the request after the ones the design issues)
    if fail && r.chance(30) && !matches!(op.op.as_str(), "drop" | "new" | "from_static") {
        op.f = match r.below(6) {
            0 | 1 => vec![1],
            2 => vec![2],
            3 => vec![1, 2],
            4 => vec![3],
            _ => vec![1, 3],
        };
        op.t = r.below(2) as i64;
    }
    // entry point
    let vs = pool.variants(&op);
    if !vs.is_empty() {
        let (e, t) = r.pick(&vs).clone();
        op.e = e;
        op.t = t;
    }
    op
}

/// Parent: one child process per trace file (in parallel). The crate's code runs only in the
/// children; a child that dies leaves its trace (flushed per record, with a "pre" record in front
/// of every call) and the parent reports the abort as data.
pub fn run(cfg: DriveCfg) -> i32 {
    std::fs::create_dir_all(&cfg.out_dir).unwrap();
    let exe = std::env::current_exe().unwrap();
    let mut children = vec![];
    for file in 0..cfg.files {
        let c = std::process::Command::new(&exe)
            .args(["drive-one", "--out", &cfg.out_dir, "--seed", &cfg.seed.to_string(), "--file", &file.to_string(), "--histories", &cfg.histories.to_string(),
                   "--ops", &cfg.ops.to_string(), "--mode", &cfg.mode, "--nh", &cfg.nh.to_string()])
            .stdout(std::process::Stdio::null())
            .stderr(std::process::Stdio::null())
            .spawn()
            .expect("spawn drive-one");
        children.push((file, c));
    }
    let mut crashed = vec![];
    for (file, mut c) in children {
        let st = c.wait().unwrap();
        if !st.success() {
            crashed.push(json!({"file":file,"status":format!("{st}")}));
        }
    }
    // merge the per-file summaries
    let mut op_counts: BTreeMap<String, u64> = BTreeMap::new();
    let mut cls_counts: BTreeMap<String, u64> = BTreeMap::new();
    let mut kinds: BTreeMap<String, u64> = BTreeMap::new();
    let mut samples: Vec<Value> = vec![];
    let (mut events, mut histories) = (0u64, 0u64);
    for file in 0..cfg.files {
        let Ok(t) = std::fs::read_to_string(format!("{}/drive_{:03}.summary.json", cfg.out_dir, file)) else { continue };
        let v: Value = serde_json::from_str(&t).unwrap();
        for (k, m) in [("ops", &mut op_counts), ("outcomes", &mut cls_counts), ("handle_states_observed", &mut kinds)] {
            for (n, c) in v[k].as_object().unwrap() {
                *m.entry(n.clone()).or_default() += c.as_u64().unwrap();
            }
        }
        events += v["records"].as_u64().unwrap();
        histories += v["histories"].as_u64().unwrap();
        if samples.len() < 3 {
            samples.extend(v["samples"].as_array().unwrap().iter().take(1).cloned());
        }
    }
    let summary = json!({"histories":histories,"records":events,"ops":op_counts,"outcomes":cls_counts,"handle_states_observed":kinds,"samples":samples,
        "mode":cfg.mode,"seed":cfg.seed,"aborted_children":crashed});
    std::fs::write(format!("{}/drive_summary.json", cfg.out_dir), serde_json::to_string_pretty(&summary).unwrap()).unwrap();
    println!("drive: files={} histories={} records={} aborted={}", cfg.files, histories, events, crashed.len());
    0
}

pub fn run_one(cfg: DriveCfg, file: usize) -> i32 {
    use std::io::Write;
    let stat = statics();
    let maxbufs = cfg.nh + 2;
    let mut op_counts: BTreeMap<String, u64> = BTreeMap::new();
    let mut cls_counts: BTreeMap<String, u64> = BTreeMap::new();
    let mut kinds: BTreeMap<String, u64> = BTreeMap::new();
    let mut samples: Vec<Value> = vec![];
    let mut histories = 0usize;
    let mut w = TraceWriter::create(&format!("{}/drive_{:03}.ndjson", cfg.out_dir, file));
    let mut r = Rng::new(cfg.seed.wrapping_mul(1000003).wrapping_add(file as u64));
    // LS_HEAP_LOG: every allocator / count / buffer event of the run, for the buffer-protocol monitor (spec/Heap.tla)
    let mut heap = std::env::var("LS_HEAP_LOG").ok().map(|_| {
        crate::shim::heap_log_start();
        std::io::BufWriter::new(std::fs::File::create(format!("{}/drive_{:03}.heap.ndjson", cfg.out_dir, file)).unwrap())
    });
    let heap_flush = |h: &mut Option<std::io::BufWriter<std::fs::File>>, head: Option<Value>, tail: Option<Value>| {
        if let Some(f) = h {
            if let Some(v) = head {
                writeln!(f, "{v}").unwrap();
            }
            for e in crate::shim::heap_log_take() {
                writeln!(f, "{}", crate::shim::heap_record(&e)).unwrap();
            }
            if let Some(v) = tail {
                writeln!(f, "{v}").unwrap();
            }
            f.flush().unwrap();
        }
    };
    for hi in 0..cfg.histories {
        let mut pool = Pool::new(cfg.nh, maxbufs, &stat);
        heap_flush(&mut heap, Some(json!({"ev":"init","name":format!("drive {} file {} history {}", cfg.mode, file, hi)})), None);
        w.init(cfg.nh, maxbufs, &stat, &json!({"file":file,"history":hi,"seed":cfg.seed,"mode":cfg.mode}));
        let mut sample_ops = vec![];
        for _ in 0..cfg.ops {
            let mut op = gen_op(&mut r, &pool, &cfg.mode);
            // announce the call before making it: if the code under test aborts, the trace says where
            writeln!(w.out, "{}", json!({"ev":"pre","c":call_json(&op, &Default::default())})).unwrap();
            w.flush();
            let res = pool.exec(&mut op, r.below(7));
            let o = pool.observe();
            heap_flush(&mut heap, Some(json!({"ev":"op","op":op.op,"e":op.e,"h":op.h,"poke":op.op == "clone_ovf"})), None);
            *op_counts.entry(op.op.clone()).or_default() += 1;
            *cls_counts.entry(format!("{}{}", res.cls, if res.msg.is_empty() { String::new() } else { format!(":{}", res.msg.split(':').next().unwrap()) })).or_default() += 1;
            for hd in o["hd"].as_array().unwrap() {
                let k = hd["k"].as_str().unwrap();
                let key = if k == "H" && hd["rc"].as_u64().unwrap() > 1 { "H-shared".to_string() } else { k.to_string() };
                *kinds.entry(key).or_default() += 1;
            }
            if samples.len() < 3 && sample_ops.len() < 12 {
                sample_ops.push(json!({"op":op.op,"e":op.e,"h":op.h,"g":op.g,"n":op.n,"s":String::from_utf8_lossy(&op.s),"f":op.f,"outcome":res.cls}));
            }
            w.call(&call_json(&op, &res), &o, &pool.std_texts());
        }
        let errs = pool.finish();
        heap_flush(&mut heap, None, Some(json!({"ev":"end","shim":[]})));
        w.end(&errs);
        w.flush();
        if samples.len() < 3 {
            samples.push(json!(sample_ops));
        }
        histories += 1;
    }
    let summary = json!({"histories":histories,"records":w.events,"ops":op_counts,"outcomes":cls_counts,"handle_states_observed":kinds,"samples":samples});
    std::fs::write(format!("{}/drive_{:03}.summary.json", cfg.out_dir, file), serde_json::to_string(&summary).unwrap()).unwrap();
    0
}

/// Re-executes the calls of a recorded history (a replay file written by bin/check) on the
/// current build and records a fresh trace.
pub fn rerun(input: &str, output: &str) -> i32 {
    let text = std::fs::read_to_string(input).unwrap_or_else(|e| panic!("cannot read {input}: {e}"));
    let mut w = TraceWriter::create(output);
    let mut pool: Option<Pool> = None;
    for line in text.lines() {
        let v: Value = match serde_json::from_str(line) {
            Ok(v) => v,
            Err(_) => continue,
        };
        match v["ev"].as_str().unwrap_or("") {
            "init" => {
                if let Some(mut p) = pool.take() {
                    let errs = p.finish();
                    w.end(&errs);
                }
                let nh = v["nh"].as_u64().unwrap() as usize;
                let maxbufs = v["maxbufs"].as_u64().unwrap() as usize;
                let st: Vec<Vec<u8>> = serde_json::from_value(v["statics"].clone()).unwrap();
                w.init(nh, maxbufs, &st, &json!({"rerun_of":input}));
                pool = Some(Pool::new(nh, maxbufs, &st));
            }
            "call" => {
                let p = pool.as_mut().expect("call before init");
                let mut op: Op = serde_json::from_value(v["c"].clone()).expect("op");
                let res = p.exec(&mut op, 0);
                let o = p.observe();
                w.call(&call_json(&op, &res), &o, &p.std_texts());
            }
            _ => {}
        }
    }
    if let Some(mut p) = pool.take() {
        let errs = p.finish();
        w.end(&errs);
    }
    w.flush();
    0
}
