//! Thread gating: real threads follow a schedule chosen by the model checker.
//!
//! Every hook of the crate (atomic operation, fence, buffer access note, allocator call) first
//! calls `gate()`. When a schedule is installed, the calling thread blocks until the schedule's
//! next entry names it, so the execution on real threads is exactly the model's interleaving.
//! Without a schedule (all sequential pipelines) `gate()` returns at once.

use std::cell::Cell;
use std::sync::{Condvar, Mutex};

thread_local! { static TID: Cell<usize> = const { Cell::new(0) }; }
pub fn tid() -> usize {
    TID.with(|t| t.get())
}
pub fn set_tid(t: usize) {
    TID.with(|c| c.set(t))
}

pub struct Sched {
    pub schedule: Vec<usize>,
    pub pos: usize,
    pub done: Vec<bool>,
    pub free_run: bool,
    pub granted: Vec<(usize, String)>,
    /// schedule entries that could not be honoured because the thread had already finished
    pub skipped: usize,
}

static SCHED: Mutex<Option<Sched>> = Mutex::new(None);
static CV: Condvar = Condvar::new();

pub fn install(schedule: Vec<usize>, nthreads: usize) {
    *SCHED.lock().unwrap() = Some(Sched { schedule, pos: 0, done: vec![false; nthreads + 1], free_run: false, granted: vec![], skipped: 0 });
}
pub fn uninstall() -> Option<Sched> {
    SCHED.lock().unwrap().take()
}

pub fn gate(what: &str) {
    let me = tid();
    if me == 0 {
        return;
    }
    let mut g = SCHED.lock().unwrap();
    loop {
        let Some(s) = g.as_mut() else { return };
        if s.free_run {
            return;
        }
        while s.pos < s.schedule.len() && s.done[s.schedule[s.pos]] {
            s.pos += 1;
            s.skipped += 1;
        }
        if s.pos >= s.schedule.len() {
            s.free_run = true;
            CV.notify_all();
            return;
        }
        if s.schedule[s.pos] == me {
            s.pos += 1;
            s.granted.push((me, what.to_string()));
            CV.notify_all();
            return;
        }
        g = CV.wait(g).unwrap();
    }
}

/// The calling thread has finished its program.
pub fn finish() {
    let me = tid();
    let mut g = SCHED.lock().unwrap();
    if let Some(s) = g.as_mut() {
        if me < s.done.len() {
            s.done[me] = true;
        }
    }
    CV.notify_all();
}
