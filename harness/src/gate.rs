//! Thread gating: real threads follow a schedule chosen by the model checker.
//!
//! Every hook of the crate (atomic operation, fence, buffer access note, allocator call) first
//! calls a gate. Without a schedule (all sequential pipelines) gates return at once. With one,
//! a gate that concerns the tracked shared buffer X (an atomic on its count, a fence following
//! one, an access to its bytes, its reallocation or release) blocks the calling thread until the
//! schedule's next entry names it; only one thread runs between two such gates, so the real
//! execution is exactly the model's interleaving and the event log is totally ordered.

use lean_string::verif_hooks::Site;
use std::cell::Cell;
use std::sync::{Condvar, Mutex};
use std::time::Duration;

thread_local! {
    static TID: Cell<usize> = const { Cell::new(0) };
    static LAST_RMW_ON_X: Cell<bool> = const { Cell::new(false) };
}
// ---- allocations the crate makes OUTSIDE its own (hooked) buffer allocator: temporaries such as a `String`.
// The harness binary installs a counting #[global_allocator]; it counts only while a crate call is being measured
// (`mx`) and the harness's own bookkeeping (shim, callbacks) is not running (`Paused`).
thread_local! {
    static MEASURE: Cell<u32> = const { Cell::new(0) };
    static PAUSE: Cell<u32> = const { Cell::new(0) };
    static EXTRA: Cell<u64> = const { Cell::new(0) };
}
/// called by the global allocator on every alloc / realloc
pub fn extra_note() {
    let on = MEASURE.try_with(|m| m.get() > 0).unwrap_or(false) && PAUSE.try_with(|p| p.get() == 0).unwrap_or(false);
    if on {
        let _ = EXTRA.try_with(|e| e.set(e.get() + 1));
    }
}
pub struct Measuring;
impl Measuring {
    pub fn new() -> Self {
        MEASURE.with(|m| m.set(m.get() + 1));
        Measuring
    }
}
impl Drop for Measuring {
    fn drop(&mut self) {
        let _ = MEASURE.try_with(|m| m.set(m.get().saturating_sub(1)));
    }
}
pub struct Paused;
impl Paused {
    pub fn new() -> Self {
        let _ = PAUSE.try_with(|p| p.set(p.get() + 1));
        Paused
    }
}
impl Drop for Paused {
    fn drop(&mut self) {
        let _ = PAUSE.try_with(|p| p.set(p.get().saturating_sub(1)));
    }
}
/// runs one call into the crate with the allocation counter on
pub fn mx<R>(f: impl FnOnce() -> R) -> R {
    let _g = Measuring::new();
    f()
}
pub fn take_extra() -> u64 {
    EXTRA.with(|e| e.replace(0))
}

pub fn tid() -> usize {
    TID.with(|t| t.get())
}
pub fn set_tid(t: usize) {
    TID.with(|c| c.set(t))
}

pub struct Sched {
    pub schedule: Vec<(usize, String)>,
    pub pos: usize,
    pub done: Vec<bool>,
    /// threads blocked outside a gate (joining others): their schedule entries cannot be honoured now
    pub paused: Vec<bool>,
    pub running: Option<usize>,
    pub free_run: bool,
    pub desync: bool,
    /// grants whose hook kind differed from the model's action label
    pub label_mismatches: usize,
    pub granted: Vec<(usize, String)>,
}

static SCHED: Mutex<Option<Sched>> = Mutex::new(None);
static CV: Condvar = Condvar::new();
/// the shared buffer the schedule is about: (user address of the block, size)
static TRACKED: Mutex<Option<(usize, usize)>> = Mutex::new(None);

pub fn install(schedule: Vec<(usize, String)>, nthreads: usize) {
    *SCHED.lock().unwrap() = Some(Sched { schedule, pos: 0, done: vec![false; nthreads + 2], paused: vec![false; nthreads + 2], running: None, free_run: false, desync: false, label_mismatches: 0, granted: vec![] });
}
pub fn uninstall() -> Option<Sched> {
    SCHED.lock().unwrap().take()
}
pub fn set_tracked(b: Option<(usize, usize)>) {
    *TRACKED.lock().unwrap() = b;
}
pub fn in_tracked(addr: usize) -> bool {
    match *TRACKED.lock().unwrap() {
        Some((u, s)) => addr >= u && addr <= u + s,
        None => false,
    }
}

fn compatible(label: &str, what: &str) -> bool {
    match label {
        "rmw+" | "rmw-" | "load" => what == "atomic",
        "fence" => what == "fence",
        "read" | "write" => what == "access",
        "dealloc" => what == "dealloc",
        "realloc" => what == "realloc",
        _ => false,
    }
}

/// Blocks until it is this thread's turn according to the schedule.
pub fn turn(what: &str) {
    let me = tid();
    if me == 0 {
        return;
    }
    let mut g = SCHED.lock().unwrap();
    if g.is_none() {
        return;
    }
    if let Some(s) = g.as_mut() {
        if me < s.paused.len() {
            s.paused[me] = false;
        }
        if s.running == Some(me) {
            s.running = None;
            CV.notify_all();
        }
    }
    loop {
        let Some(s) = g.as_mut() else { return };
        while !s.free_run && s.pos < s.schedule.len() && (s.done[s.schedule[s.pos].0] || s.paused[s.schedule[s.pos].0]) {
            s.pos += 1; // the model let a finished thread move: cannot be honoured
            s.desync = true;
        }
        if !s.free_run && s.pos >= s.schedule.len() {
            s.free_run = true;
        }
        if s.running.is_none() {
            if s.free_run {
                s.running = Some(me);
                return;
            }
            if s.schedule[s.pos].0 == me {
                if !compatible(&s.schedule[s.pos].1, what) {
                    s.label_mismatches += 1;
                }
                s.pos += 1;
                s.running = Some(me);
                s.granted.push((me, what.to_string()));
                return;
            }
        }
        let (ng, to) = CV.wait_timeout(g, Duration::from_millis(300)).unwrap();
        g = ng;
        if to.timed_out() {
            if let Some(s) = g.as_mut() {
                // the schedule cannot be followed (the code's steps differ from the model's, or the
                // thread whose turn it is blocks outside a gate): from here on best effort
                s.desync = true;
                s.free_run = true;
                s.running = None;
                CV.notify_all();
            }
        }
    }
}

/// Post mode (`LS_GATE_POST=1`): the code that FOLLOWS an operation on the tracked block is attached to the thread's next
/// step instead of the one just performed (both are interleavings of the same program; the default attaches it to the
/// previous step). A thread that has just performed its operation hands the processor back and continues only right
/// before its next scheduled step, or once the schedule is exhausted - so what a thread does after giving up its
/// reference runs after the other threads' steps (e.g. after the last owner has freed the block).
pub fn post_mode() -> bool {
    static ON: std::sync::OnceLock<bool> = std::sync::OnceLock::new();
    *ON.get_or_init(|| std::env::var("LS_GATE_POST").map(|v| v == "1").unwrap_or(false))
}

fn yield_after() {
    let me = tid();
    if me == 0 {
        return;
    }
    let mut g = SCHED.lock().unwrap();
    if g.is_none() {
        return;
    }
    if let Some(s) = g.as_mut() {
        if s.running == Some(me) {
            s.running = None;
            CV.notify_all();
        }
    }
    loop {
        let Some(s) = g.as_mut() else { return };
        while !s.free_run && s.pos < s.schedule.len() && (s.done[s.schedule[s.pos].0] || s.paused[s.schedule[s.pos].0]) {
            s.pos += 1;
            s.desync = true;
        }
        if !s.free_run && s.pos >= s.schedule.len() {
            s.free_run = true;
        }
        if s.running.is_none() && (s.free_run || s.schedule[s.pos].0 == me) {
            s.running = Some(me);
            return;
        }
        let (ng, to) = CV.wait_timeout(g, Duration::from_millis(300)).unwrap();
        g = ng;
        if to.timed_out() {
            if let Some(s) = g.as_mut() {
                s.desync = true;
                s.free_run = true;
                s.running = None;
                CV.notify_all();
            }
        }
    }
}

/// Called after an atomic operation, fence or buffer access has been performed and recorded.
pub fn after_at(site: Site, addr: usize) {
    if tid() == 0 || !post_mode() {
        return;
    }
    let on_x = match site {
        Site::Atomic | Site::Access => in_tracked(addr),
        Site::Fence => LAST_RMW_ON_X.with(|c| c.get()),
    };
    if on_x {
        yield_after()
    }
}

/// Scheduling point in front of an atomic operation, fence or buffer access.
pub fn turn_at(site: Site, addr: usize) {
    if tid() == 0 {
        return;
    }
    match site {
        Site::Atomic => {
            let x = in_tracked(addr);
            LAST_RMW_ON_X.with(|c| c.set(x));
            if x {
                turn("atomic")
            }
        }
        Site::Fence => {
            if LAST_RMW_ON_X.with(|c| c.get()) {
                turn("fence")
            }
        }
        Site::Access => {
            if in_tracked(addr) {
                turn("access")
            }
        }
    }
}

/// Scheduling point in front of an allocator call on the block at `addr` (0: a fresh allocation).
pub fn turn_alloc(what: &str, addr: usize) {
    if tid() != 0 && addr != 0 && in_tracked(addr) {
        turn(what)
    }
}

/// The calling thread is about to block outside a gate (joining other threads).
pub fn pause() {
    let me = tid();
    let mut g = SCHED.lock().unwrap();
    if let Some(s) = g.as_mut() {
        if s.running == Some(me) {
            s.running = None;
        }
        if me < s.paused.len() {
            s.paused[me] = true;
        }
    }
    CV.notify_all();
}

/// The calling thread is back from blocking outside a gate.
pub fn resume() {
    let me = tid();
    let mut g = SCHED.lock().unwrap();
    if let Some(s) = g.as_mut() {
        if me < s.paused.len() {
            s.paused[me] = false;
        }
    }
    CV.notify_all();
}

/// The calling thread has finished its program.
pub fn finish() {
    let me = tid();
    let mut g = SCHED.lock().unwrap();
    if let Some(s) = g.as_mut() {
        if s.running == Some(me) {
            s.running = None;
        }
        if me < s.done.len() {
            s.done[me] = true;
        }
    }
    CV.notify_all();
}
