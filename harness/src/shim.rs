//! Shadow heap behind the crate's `verif-hooks` allocator entry points.
//!
//! Every block the crate allocates lives in its own System allocation with a 64-byte guard zone
//! on both sides (canary pattern), is filled with 0xFA ("never written") when handed out, is
//! poisoned with 0xFD and quarantined (never reused within a history) when freed, and carries a
//! small canonical id: a new block takes the lowest id that is not live, `realloc` keeps the id
//! (the block always moves, so "the text did not move" is the same as "no reallocation").
//!
//! The shim can fail exactly the k-th request of the current public call (`fail`) and refuses
//! every request above `LIMIT` bytes, which makes "the allocator has no memory" deterministic.

use lean_string::verif_hooks::{Event, Hooks};
use std::alloc::{GlobalAlloc, Layout, System};
use std::collections::BTreeMap;
use std::sync::Mutex;

pub const GUARD: usize = 64;
pub const LIMIT: usize = 1 << 30;
pub const HEADER: usize = 16;
// (bytes that never occur in UTF-8 text: if one shows up in a handle's own 16 bytes, it was read from outside a live block)
pub const CANARY: u8 = 0xFB;
pub const UNINIT: u8 = 0xFA;
pub const POISON: u8 = 0xFD;

#[derive(Debug, Clone)]
pub struct Block {
    pub user: usize,
    pub size: usize,
    pub align: usize,
    pub live: bool,
    pub id: usize,
    pub foreign: bool, // allocated for the harness's own argument (an iterator item), not by the call under test
}

#[derive(Default)]
pub struct Shim {
    pub blocks: BTreeMap<usize, Block>, // keyed by user address; live and quarantined
    pub n_alloc: u64,
    pub n_realloc: u64,
    pub n_dealloc: u64,
    pub call_req: usize,   // requests issued by the current public call
    pub fail: Vec<usize>,  // which requests of the current call fail
    pub inj: bool,         // a request of the current call was refused
    pub errors: Vec<String>,
    pub trace_access: bool,
    pub events: Vec<Ev>,   // micro events of the current call (when `record_events`)
    pub record_events: bool,
    pub tracked: Option<(usize, usize, usize)>, // the shared block of pipeline D: user address, size, id
    pub heap_log: Option<Vec<Ev>>, // every event, across calls (for the buffer-protocol monitor)
    pub foreign_mode: bool,
    pub foreign_seq: usize,
    pub purge_at: usize,   // > 0: once this many blocks are known, the dead ones are checked and given back
}

/// micro event as recorded for the concurrency pipeline
#[derive(Debug, Clone)]
pub struct Ev {
    pub tid: usize,
    pub kind: &'static str, // rmw+ rmw- load fence read write alloc realloc dealloc
    pub order: &'static str,
    pub val: usize,  // previous value (rmw) / loaded value / size
    pub blk: usize,  // block id (0: not a shim block)
    pub x: bool,     // concerns the tracked shared block (pipeline D)
    pub dead: bool,  // the block had already been given back when the event happened
}

pub static SHIM: Mutex<Option<Shim>> = Mutex::new(None);

fn with<R>(f: impl FnOnce(&mut Shim) -> R) -> R {
    let _p = crate::gate::Paused::new(); // the shim's own bookkeeping is not the crate's allocation
    let mut g = SHIM.lock().unwrap_or_else(|e| e.into_inner());
    f(g.get_or_insert_with(Shim::default))
}

impl Shim {
    fn lowest_free_id(&self) -> usize {
        let mut id = 1;
        loop {
            if !self.blocks.values().any(|b| b.live && b.id == id) {
                return id;
            }
            id += 1;
        }
    }
    pub fn find(&self, addr: usize) -> Option<&Block> {
        self.blocks.range(..=addr).next_back().map(|(_, b)| b).filter(|b| addr < b.user + b.size.max(1))
    }
    fn err(&mut self, s: String) {
        if self.errors.len() < 64 {
            self.errors.push(s);
        }
    }
    unsafe fn raw_alloc(&mut self, size: usize, align: usize) -> usize {
        let l = Layout::from_size_align(size + 2 * GUARD, GUARD.max(align)).unwrap();
        let base = unsafe { System.alloc(l) } as usize;
        assert!(base != 0, "system allocator failed");
        unsafe {
            std::ptr::write_bytes(base as *mut u8, CANARY, GUARD);
            std::ptr::write_bytes((base + GUARD) as *mut u8, UNINIT, size);
            std::ptr::write_bytes((base + GUARD + size) as *mut u8, CANARY, GUARD);
        }
        base + GUARD
    }
    fn canaries_ok(b: &Block) -> bool {
        let front = unsafe { std::slice::from_raw_parts((b.user - GUARD) as *const u8, GUARD) };
        let back = unsafe { std::slice::from_raw_parts((b.user + b.size) as *const u8, GUARD) };
        front.iter().all(|&x| x == CANARY) && back.iter().all(|&x| x == CANARY)
    }
    fn request_refused(&mut self, size: usize) -> bool {
        self.call_req += 1;
        if size > LIMIT || self.fail.contains(&self.call_req) {
            self.inj = true;
            return true;
        }
        false
    }
    fn retire(&mut self, user: usize) {
        let b = self.blocks.get_mut(&user).unwrap();
        b.live = false;
        unsafe { std::ptr::write_bytes(user as *mut u8, POISON, b.size) };
    }
    /// Ends a history: every block must be dead, canaries and poison intact; memory goes back.
    pub fn finish_history(&mut self) -> Vec<String> {
        let mut errs = Vec::new();
        for b in self.blocks.values() {
            if b.live {
                errs.push(format!("leak:block#{} size={} still live at end", b.id, b.size));
            }
            if !Self::canaries_ok(b) {
                errs.push(format!("canary:block#{} guard zone damaged", b.id));
            }
            if !b.live {
                let body = unsafe { std::slice::from_raw_parts(b.user as *const u8, b.size) };
                if !body.iter().all(|&x| x == POISON) {
                    errs.push(format!("write-after-free:block#{}", b.id));
                }
            }
        }
        let blocks = std::mem::take(&mut self.blocks);
        for b in blocks.values() {
            let l = Layout::from_size_align(b.size + 2 * GUARD, GUARD.max(b.align)).unwrap();
            unsafe { System.dealloc((b.user - GUARD) as *mut u8, l) };
        }
        errs
    }
    /// Long runs (the repository's test-suite): checks the quarantined blocks and gives them back.
    fn purge_dead(&mut self) {
        let dead: Vec<Block> = self.blocks.values().filter(|b| !b.live).cloned().collect();
        for b in dead {
            if !Self::canaries_ok(&b) {
                self.err(format!("canary:block#{} guard zone damaged", b.id));
            }
            let body = unsafe { std::slice::from_raw_parts(b.user as *const u8, b.size) };
            if !body.iter().all(|&x| x == POISON) {
                self.err(format!("write-after-free:block#{}", b.id));
            }
            let l = Layout::from_size_align(b.size + 2 * GUARD, GUARD.max(b.align)).unwrap();
            unsafe { System.dealloc((b.user - GUARD) as *mut u8, l) };
            self.blocks.remove(&b.user);
        }
    }
    pub fn live_blocks(&self) -> Vec<(usize, usize)> {
        self.blocks.values().filter(|b| b.live).map(|b| (b.id, b.size)).collect()
    }
}

unsafe fn sh_alloc(l: Layout) -> *mut u8 {
    with(|s| {
        if !s.foreign_mode && s.request_refused(l.size()) {
            s.ev("alloc", "fail", l.size(), 0, 0);
            return std::ptr::null_mut();
        }
        if s.purge_at > 0 && s.blocks.len() >= s.purge_at {
            s.purge_dead();
        }
        let user = unsafe { s.raw_alloc(l.size(), l.align()) };
        let id = s.lowest_free_id();
        let foreign = s.foreign_mode;
        // (foreign blocks are numbered from 1000 on: they do not take part in the lowest-free numbering the model predicts)
        let id = if foreign {
            s.foreign_seq += 1;
            1000 + s.foreign_seq
        } else {
            id
        };
        s.blocks.insert(user, Block { user, size: l.size(), align: l.align(), live: true, id, foreign });
        if !foreign {
            s.n_alloc += 1;
        }
        s.ev("alloc", "", l.size(), id, user);
        user as *mut u8
    })
}

unsafe fn sh_dealloc(p: *mut u8, l: Layout) {
    crate::gate::turn_alloc("dealloc", p as usize);
    with(|s| {
        let user = p as usize;
        match s.blocks.get(&user).cloned() {
            None => s.err(format!("bad-free:unknown pointer")),
            Some(b) if !b.live => {
                s.err(format!("double-free:block#{}", b.id));
                s.ev("dealloc", "double", b.size, b.id, b.user);
            }
            Some(b) => {
                if b.size != l.size() || b.align != l.align() {
                    s.err(format!("bad-layout:block#{} allocated {}/{} freed {}/{}", b.id, b.size, b.align, l.size(), l.align()));
                }
                if !Shim::canaries_ok(&b) {
                    s.err(format!("canary:block#{} guard zone damaged", b.id));
                }
                s.retire(user);
                if !b.foreign {
                    s.n_dealloc += 1;
                }
                s.ev("dealloc", "", b.size, b.id, b.user);
            }
        }
    })
}

unsafe fn sh_realloc(p: *mut u8, l: Layout, n: usize) -> *mut u8 {
    crate::gate::turn_alloc("realloc", p as usize);
    with(|s| {
        let user = p as usize;
        let Some(b) = s.blocks.get(&user).cloned() else {
            s.err(format!("bad-realloc:unknown pointer"));
            return std::ptr::null_mut();
        };
        if !b.live {
            s.err(format!("realloc-after-free:block#{}", b.id));
            return std::ptr::null_mut();
        }
        if b.size != l.size() || b.align != l.align() {
            s.err(format!("bad-layout:block#{} allocated {}/{} realloc {}/{}", b.id, b.size, b.align, l.size(), l.align()));
        }
        if s.request_refused(n) {
            s.ev("realloc", "fail", n, b.id, b.user);
            return std::ptr::null_mut();
        }
        if !Shim::canaries_ok(&b) {
            s.err(format!("canary:block#{} guard zone damaged", b.id));
        }
        let nu = unsafe { s.raw_alloc(n, l.align()) };
        unsafe { std::ptr::copy_nonoverlapping(user as *const u8, nu as *mut u8, b.size.min(n)) };
        s.retire(user);
        s.blocks.insert(nu, Block { user: nu, size: n, align: l.align(), live: true, id: b.id, foreign: b.foreign });
        s.n_realloc += 1;
        s.ev("realloc", "", n, b.id, b.user);
        nu as *mut u8
    })
}

fn ord(o: std::sync::atomic::Ordering) -> &'static str {
    use std::sync::atomic::Ordering::*;
    match o {
        Relaxed => "Relaxed",
        Release => "Release",
        Acquire => "Acquire",
        AcqRel => "AcqRel",
        SeqCst => "SeqCst",
        _ => "?",
    }
}

impl Shim {
    fn ev(&mut self, kind: &'static str, order: &'static str, val: usize, blk: usize, bu: usize) {
        self.ev_d(kind, order, val, blk, bu, false)
    }
    fn ev_d(&mut self, kind: &'static str, order: &'static str, val: usize, blk: usize, bu: usize, dead: bool) {
        if self.record_events || self.heap_log.is_some() {
            let x = matches!(self.tracked, Some((u, _, _)) if u == bu && bu != 0);
            let e = Ev { tid: crate::gate::tid(), kind, order, val, blk, x, dead };
            if let Some(l) = &mut self.heap_log {
                l.push(e.clone());
            }
            if self.record_events {
                self.events.push(e);
            }
        }
    }
    fn access(&mut self, kind: &'static str, ptr: usize, len: usize) {
        let Some(b) = self.find(ptr).cloned() else {
            return; // inline words, static text, caller's memory
        };
        if !b.live {
            self.err(format!("use-after-free:{kind} of {len} bytes in freed block#{}", b.id));
        } else if ptr < b.user + HEADER || ptr + len > b.user + b.size {
            self.err(format!("out-of-bounds:{kind} [{}..{}) of block#{} size {}", ptr - b.user, ptr - b.user + len, b.id, b.size));
        } else if kind == "write" && len > 0 {
            // the reference count is the first word of the header
            let rc = unsafe { std::ptr::read_volatile(b.user as *const usize) };
            if rc > 1 {
                self.err(format!("shared-write:write into block#{} while its count is {rc}", b.id));
            }
        }
        self.ev_d(kind, "", len, b.id, b.user, !b.live);
    }
}

fn on_event(e: Event) {
    match e {
        Event::Pre(site, addr) => crate::gate::turn_at(site, addr),
        Event::Read { ptr, len } => {
            with(|s| s.access("read", ptr, len));
            crate::gate::after_at(lean_string::verif_hooks::Site::Access, ptr)
        }
        Event::Write { ptr, len } => {
            with(|s| s.access("write", ptr, len));
            crate::gate::after_at(lean_string::verif_hooks::Site::Access, ptr)
        }
        Event::FetchAdd { addr, order, prev, .. } => {
            with(|s| {
                let (id, bu, dead) = s.find(addr).map(|b| (b.id, b.user, !b.live)).unwrap_or((0, 0, false));
                s.ev_d("rmw+", ord(order), prev, id, bu, dead)
            });
            crate::gate::after_at(lean_string::verif_hooks::Site::Atomic, addr)
        }
        Event::FetchSub { addr, order, prev, .. } => {
            with(|s| {
                let (id, bu, dead) = s.find(addr).map(|b| (b.id, b.user, !b.live)).unwrap_or((0, 0, false));
                s.ev_d("rmw-", ord(order), prev, id, bu, dead)
            });
            crate::gate::after_at(lean_string::verif_hooks::Site::Atomic, addr)
        }
        Event::Load { addr, order, val } => {
            with(|s| {
                let (id, bu, dead) = s.find(addr).map(|b| (b.id, b.user, !b.live)).unwrap_or((0, 0, false));
                s.ev_d("load", ord(order), val, id, bu, dead)
            });
            crate::gate::after_at(lean_string::verif_hooks::Site::Atomic, addr)
        }
        Event::Fence { order } => {
            with(|s| s.ev("fence", ord(order), 0, 0, 0));
            crate::gate::after_at(lean_string::verif_hooks::Site::Fence, 0)
        }
    }
}

static HOOKS: Hooks = Hooks { alloc: sh_alloc, realloc: sh_realloc, dealloc: sh_dealloc, event: on_event };

pub fn install() {
    lean_string::verif_hooks::install(&HOOKS);
}

/// Starts a public call: resets the per-call request counter and failure schedule.
pub fn begin_call(fail: &[usize]) -> (u64, u64, u64) {
    with(|s| {
        s.call_req = 0;
        s.fail = fail.to_vec();
        s.inj = false;
        s.errors.clear();
        s.events.clear();
        (s.n_alloc, s.n_realloc, s.n_dealloc)
    })
}

pub struct CallStats {
    pub d_a: u64,
    pub d_r: u64,
    pub d_d: u64,
    pub inj: bool,
    pub nreq: usize,
    pub errors: Vec<String>,
    pub events: Vec<Ev>,
}

pub fn end_call(before: (u64, u64, u64)) -> CallStats {
    with(|s| {
        s.fail.clear();
        CallStats {
            d_a: s.n_alloc - before.0,
            d_r: s.n_realloc - before.1,
            d_d: s.n_dealloc - before.2,
            inj: s.inj,
            nreq: s.call_req,
            errors: std::mem::take(&mut s.errors),
            events: std::mem::take(&mut s.events),
        }
    })
}

pub fn find_block(addr: usize) -> Option<Block> {
    with(|s| s.find(addr).cloned())
}
pub fn live_blocks() -> Vec<(usize, usize)> {
    with(|s| s.live_blocks())
}
pub fn finish_history() -> Vec<String> {
    with(|s| s.finish_history())
}
pub fn set_record_events(on: bool) {
    with(|s| s.record_events = on)
}


pub fn set_tracked_block(b: Option<(usize, usize, usize)>) {
    with(|s| s.tracked = b);
    crate::gate::set_tracked(b.map(|(u, sz, _)| (u, sz)));
}
pub fn set_purge_at(n: usize) {
    with(|s| s.purge_at = n)
}
/// One event as a record of the buffer-protocol monitor (spec/Heap.tla).
pub fn heap_record(e: &Ev) -> serde_json::Value {
    if e.dead {
        serde_json::json!({"ev":"e","t":e.tid,"k":e.kind,"o":e.order,"v":e.val,"b":e.blk,"d":true})
    } else {
        serde_json::json!({"ev":"e","t":e.tid,"k":e.kind,"o":e.order,"v":e.val,"b":e.blk})
    }
}
pub fn heap_log_start() {
    with(|s| s.heap_log = Some(Vec::new()))
}
pub fn heap_log_take() -> Vec<Ev> {
    with(|s| s.heap_log.as_mut().map(std::mem::take).unwrap_or_default())
}
/// Builds an argument of the call under test (an iterator item that is itself a LeanString): its buffer is tracked, but it
/// is neither a request of the call (not counted, never refused) nor its release one of the call's.
pub fn foreign<R>(f: impl FnOnce() -> R) -> R {
    with(|s| s.foreign_mode = true);
    let r = f();
    with(|s| s.foreign_mode = false);
    r
}
pub fn take_errors() -> Vec<String> {
    with(|s| std::mem::take(&mut s.errors))
}
pub fn take_events() -> Vec<Ev> {
    with(|s| std::mem::take(&mut s.events))
}
/// the harness's own read / write of text bytes, noted like the crate's
pub fn note_access(kind: &'static str, ptr: usize, len: usize) {
    with(|s| s.access(kind, ptr, len))
}
pub fn take_events_into(out: &mut serde_json::Value, state: &str, op: &str, blk: usize) {
    let evs = take_events();
    let v: Vec<serde_json::Value> = evs.iter().filter(|e| e.blk == blk || e.kind == "fence").map(|e| serde_json::json!({"k":e.kind,"o":e.order,"v":e.val})).collect();
    out[format!("{op}/{state}")] = serde_json::json!(v);
}

/// a harness-level event (thread spawn / join) in the event log
pub fn mark(kind: &'static str) {
    with(|s| {
        if s.record_events {
            s.events.push(Ev { tid: crate::gate::tid(), kind, order: "", val: 0, blk: 0, x: true, dead: false });
        }
    })
}
