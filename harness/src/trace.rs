//! ndjson trace output: one "init" record, then per public call one "call" record (the call with
//! its outcome, the observation of every slot afterwards, what String holds), an "end" record
//! per history with the shadow heap's end-of-history findings.

use serde_json::{Value, json};
use std::io::Write;

pub struct TraceWriter {
    pub out: Box<dyn Write>,
    pub events: usize,
    pub histories: usize,
}

impl TraceWriter {
    pub fn create(path: &str) -> TraceWriter {
        let f = std::fs::File::create(path).unwrap_or_else(|e| panic!("cannot create {path}: {e}"));
        TraceWriter { out: Box::new(std::io::BufWriter::new(f)), events: 0, histories: 0 }
    }
    pub fn init(&mut self, nh: usize, maxbufs: usize, statics: &[Vec<u8>], tag: &Value) {
        let rec = json!({"ev":"init","nh":nh,"maxbufs":maxbufs,"statics":statics,"tag":tag});
        writeln!(self.out, "{}", rec).unwrap();
        self.events += 1;
        self.histories += 1;
    }
    pub fn call(&mut self, c: &Value, o: &Value, std: &Value) {
        let rec = json!({"ev":"call","c":c,"o":o,"std":std});
        writeln!(self.out, "{}", rec).unwrap();
        self.events += 1;
    }
    pub fn end(&mut self, errs: &[String]) {
        let rec = json!({"ev":"end","errs":errs});
        writeln!(self.out, "{}", rec).unwrap();
        self.events += 1;
    }
    pub fn flush(&mut self) {
        self.out.flush().unwrap();
    }
}
