//! A pool of handle slots driven by the specification's op records, on the real `LeanString`
//! and, side by side, on `std::string::String`.

use crate::gate::mx;
use crate::shim;
use lean_string::{LeanString, ToLeanString};
use serde::{Deserialize, Serialize};
use serde_json::{Value, json};
use std::borrow::Cow;
use std::fmt::Write as _;
use std::panic::{AssertUnwindSafe, catch_unwind};
use std::str::FromStr;

pub const BIG: i64 = -1;
pub const TOOLONG: i64 = -2;
pub const OVERFLOW: i64 = -3;
pub const MAX_LEN: usize = (1usize << 56) - 1;
pub const CB_PANIC: &str = "verif-callback-panic";

#[derive(Serialize, Deserialize, Clone, Debug, Default)]
pub struct Op {
    pub op: String,
    #[serde(default)]
    pub v: String,
    #[serde(default)]
    pub t: i64,
    #[serde(default)]
    pub h: usize,
    #[serde(default)]
    pub g: usize,
    #[serde(default)]
    pub n: i64,
    #[serde(default)]
    pub m: i64,
    #[serde(default)]
    pub s: Vec<u8>,
    #[serde(default)]
    pub x: Value,
    #[serde(default)]
    pub f: Vec<usize>,
    /// entry point chosen by the harness among those the specification treats as this action
    #[serde(default)]
    pub e: String,
    /// concrete value used for a symbolic size class (decimal), for the replay file
    #[serde(default)]
    pub raw: String,
}

#[derive(Clone, Debug, Default, PartialEq)]
pub struct CallRes {
    pub cls: String,
    pub val: Vec<u8>,
    pub msg: String,
    pub x_a: u64,
    pub d_a: u64,
    pub d_r: u64,
    pub d_d: u64,
    pub inj: bool,
    pub nreq: usize,
    pub shim: Vec<String>,
    /// what std String did: class, value, panic kind
    pub scls: String,
    pub sval: Vec<u8>,
    pub smsg: String,
}

pub struct StaticText {
    pub base: usize,
    pub len: usize,
    pub pristine: Vec<u8>,
    pub text: &'static str,
}

pub struct Pool {
    pub ls: Vec<Option<LeanString>>,
    pub ss: Vec<Option<String>>,
    pub statics: Vec<StaticText>,
    pub maxbufs: usize,
}

pub fn leak_static(bytes: &[u8]) -> StaticText {
    // writable, leaked memory: a write through the borrowed pointer would be visible
    let b: &'static mut [u8] = Box::leak(bytes.to_vec().into_boxed_slice());
    let base = b.as_ptr() as usize;
    let text: &'static str = unsafe { std::str::from_utf8_unchecked(std::slice::from_raw_parts(b.as_ptr(), b.len())) };
    StaticText { base, len: bytes.len(), pristine: bytes.to_vec(), text }
}

fn s_of(b: &[u8]) -> &str {
    std::str::from_utf8(b).expect("specification produced invalid UTF-8 argument")
}

fn panic_class(p: &(dyn std::any::Any + Send)) -> String {
    let s = if let Some(s) = p.downcast_ref::<String>() {
        s.clone()
    } else if let Some(s) = p.downcast_ref::<&str>() {
        s.to_string()
    } else {
        return "other:non-string".into();
    };
    // the plain forms panic with ReserveError's own Display text, whatever its wording is
    if s == lean_string::ReserveError.to_string() {
        "reserve".into()
    } else if s == CB_PANIC {
        "callback".into()
    } else if s.contains("char boundary") || s.contains("out of bounds") || s.contains("index") || s.contains("is out of range") {
        "index".into()
    } else if s == "an error occurred when formatting an argument" {
        "fmt".into()
    } else if s == "text is too long" {
        "toolong".into()
    } else if s == "reference count overflow" {
        "rcoverflow".into()
    } else if s.contains("capacity overflow") {
        "reserve".into() // std's own wording (oracle side only)
    } else {
        format!("other:{s}")
    }
}

/// concrete values standing for a symbolic size class, given the current length
pub fn materialize(n: i64, len: usize, with_len: bool) -> Vec<usize> {
    let l = if with_len { len } else { 0 };
    match n {
        BIG => vec![1 << 30, 1 << 31, (1usize << 32) + 1, 1 << 40, (1usize << 55) + 2, MAX_LEN - l],
        TOOLONG => vec![MAX_LEN - l + 1, 1usize << 56, (1usize << 56) + 2, 1usize << 60, isize::MAX as usize - l, (isize::MAX as usize).wrapping_add(2), usize::MAX - l],
        OVERFLOW => vec![usize::MAX - l + 1, usize::MAX],
        _ => vec![n as usize],
    }
}

struct Items<I> {
    it: I,
    calls: i64,
    m: i64,
    hint: usize,
    /// report an exact size hint (lower = upper = items left): the hint then equals the item count
    exact: bool,
    /// report a loose one: (hint, Some(4 * hint)) - what `str::chars()` does: only the lower bound is a promise
    loose: bool,
}
thread_local! {
    /// set when an iterator has returned None: String never polls again (an iterator need not be fused)
    static ITEMS_DONE: std::cell::Cell<bool> = const { std::cell::Cell::new(false) };
}
impl<I: Iterator> Iterator for Items<I> {
    type Item = I::Item;
    fn next(&mut self) -> Option<I::Item> {
        self.calls += 1;
        if self.calls == self.m {
            panic!("{}", CB_PANIC);
        }
        if self.calls > 1 && ITEMS_DONE.with(|d| d.get()) {
            panic!("{}", CB_PANIC); // polled again after it had said None
        }
        let _p = crate::gate::Paused::new(); // building an item is the caller's work, not the crate's
        let r = self.it.next();
        ITEMS_DONE.with(|d| d.set(r.is_none()));
        r
    }
    fn size_hint(&self) -> (usize, Option<usize>) {
        // String asks once, before it starts iterating; an iterator may not like being asked in the middle
        if self.calls > 0 {
            panic!("{}", CB_PANIC);
        }
        if self.exact {
            let left = self.hint.saturating_sub(self.calls.max(0) as usize);
            (left, Some(left))
        } else if self.loose && self.hint > 0 && self.hint < (1 << 20) {
            (self.hint, Some(self.hint * 4))
        } else {
            (self.hint, None)
        }
    }
}

struct Pieces<'a> {
    pieces: &'a [Vec<u8>],
    fail_at: i64, // return fmt::Error before piece k (1-based); 0 never
    panic_at: i64,
    calls: std::cell::Cell<u32>, // a value with interior state: what it prints depends on how often it was formatted
}
pub const AGAIN: &str = "<formatted more than once>";
impl std::fmt::Display for Pieces<'_> {
    fn fmt(&self, f: &mut std::fmt::Formatter<'_>) -> std::fmt::Result {
        self.calls.set(self.calls.get() + 1);
        if self.calls.get() > 1 {
            return f.write_str(AGAIN); // `to_string()` formats a value exactly once
        }
        for (i, p) in self.pieces.iter().enumerate() {
            if self.fail_at == i as i64 + 1 {
                return Err(std::fmt::Error);
            }
            if self.panic_at == i as i64 + 1 {
                panic!("{}", CB_PANIC);
            }
            write_piece(f, s_of(p))?;
        }
        if self.fail_at == self.pieces.len() as i64 + 1 {
            return Err(std::fmt::Error);
        }
        if self.panic_at == self.pieces.len() as i64 + 1 {
            panic!("{}", CB_PANIC);
        }
        Ok(())
    }
}

/// `write!(s, "<literal>")` for the texts of the scenario alphabets (a format string without arguments is a `&'static str`
/// to `fmt::Arguments::as_str`, which an implementation may treat specially); None if the text is not one of them.
pub fn write_literal(text: &str, target: Option<&mut LeanString>) -> Option<std::fmt::Result> {
    use std::fmt::Write as _;
    macro_rules! lits {
        ($($l:literal),*) => {
            match text {
                $($l => Some(match target { Some(t) => write!(t, $l), None => Ok(()) }),)*
                _ => None,
            }
        };
    }
    lits!("", "a", "b", "x", "abcdefghijklmno", "abcdefghijklmnop", "abcdefghijklmnopq", "\u{e9}", "\u{20ac}", "\u{1d11e}", "abcdefghijklm\u{20ac}",
          "a\u{e9}\u{20ac}\u{1d11e}bc\u{1d11e}\u{20ac}\u{e9}d")
}

/// A piece that is one char is handed over with `write_char` (what `write!(f, "{}", ch)` and padding do),
/// anything else with `write_str`.
pub fn write_piece(f: &mut std::fmt::Formatter<'_>, s: &str) -> std::fmt::Result {
    use std::fmt::Write as _;
    let mut cs = s.chars();
    match (cs.next(), cs.next()) {
        (Some(c), None) => f.write_char(c),
        _ => f.write_str(s),
    }
}

fn items_of(x: &Value) -> Vec<Vec<u8>> {
    x.as_array()
        .map(|a| a.iter().map(|it| it.as_array().map(|b| b.iter().map(|v| v.as_u64().unwrap() as u8).collect()).unwrap_or_default()).collect())
        .unwrap_or_default()
}
fn spare_string(s: &str) -> String {
    let mut t = String::with_capacity(s.len() + 64);
    t.push_str(s);
    t
}
fn units_of(x: &Value) -> Vec<u16> {
    x.as_array().map(|a| a.iter().map(|v| v.as_u64().unwrap_or(0) as u16).collect()).unwrap_or_default()
}
fn decisions_of(x: &Value) -> Vec<i64> {
    x.as_array().map(|a| a.iter().map(|v| v.as_i64().unwrap_or(1)).collect()).unwrap_or_default()
}

enum Out {
    Ok,
    None,
    Some(Vec<u8>),
    Val(Vec<u8>),
    Err,
    ErrFmt,
    ErrUtf16,
}

impl Pool {
    pub fn new(nh: usize, maxbufs: usize, statics: &[Vec<u8>]) -> Pool {
        Pool { ls: (0..nh).map(|_| None).collect(), ss: (0..nh).map(|_| None).collect(), statics: statics.iter().map(|b| leak_static(b)).collect(), maxbufs }
    }

    /// Drops everything; returns the shim's end-of-history findings.
    pub fn finish(&mut self) -> Vec<String> {
        for s in self.ls.iter_mut() {
            *s = None;
        }
        for s in self.ss.iter_mut() {
            *s = None;
        }
        shim::finish_history()
    }

    pub fn text(&self, h: usize) -> Option<&str> {
        self.ls[h - 1].as_ref().map(|s| s.as_str())
    }

    /// entry points the specification treats as the same action as `op`
    pub fn variants(&self, op: &Op) -> Vec<(String, i64)> {
        let single_char = matches!(op.op.as_str(), "push_str" | "insert_str") && !op.s.is_empty() && s_of(&op.s).chars().count() == 1;
        let faulty = !op.f.is_empty() || op.n < 0;
        let both = |names: &[&str]| -> Vec<(String, i64)> {
            let mut v = vec![];
            for n in names {
                if faulty {
                    v.push((n.to_string(), op.t));
                } else {
                    v.push((n.to_string(), 0));
                    v.push((n.to_string(), 1));
                }
            }
            v
        };
        let plain = |names: &[&str]| -> Vec<(String, i64)> { if faulty && op.t == 1 { vec![] } else { names.iter().map(|n| (n.to_string(), 0)).collect() } };
        match op.op.as_str() {
            "from_str" => {
                let mut v = plain(&["", "string", "string_spare", "string_shortened", "ref_string", "box", "cow_b", "cow_o", "cow_o_spare", "utf8", "utf8_unchecked", "tls_string", "tls_string_spare"]);
                if !faulty || op.t == 1 {
                    v.push(("fromstr".into(), 1));
                    v.push(("try_tls_string".into(), 1));
                }
                v
            }
            "with_capacity" | "reserve" | "pop" | "remove" | "truncate" | "retain" => both(&[""]),
            "shrink_to" => {
                if op.n == 0 { both(&["", "fit"]) } else { both(&[""]) }
            }
            "clone" => {
                let mut v = plain(&["", "from_ref", "tls"]);
                if !faulty {
                    v.push(("try_tls".into(), 1));
                }
                v
            }
            "push_str" => {
                let mut v = both(&[""]);
                v.extend(plain(&["add_assign", "write_str", "write_fmt"]));
                if write_literal(s_of(&op.s), None).is_some() {
                    v.extend(plain(&["write_lit"])); // write!(s, "literal"): a format string without arguments
                }
                if !faulty {
                    v.extend(plain(&["add"]));
                }
                if single_char {
                    v.extend(both(&["push"]));
                }
                v
            }
            "insert_str" => {
                let mut v = both(&[""]);
                if single_char {
                    v.extend(both(&["insert"]));
                }
                v
            }
            "extend" => {
                if op.v == "chars" {
                    let mut v = plain(&["chars", "ref_chars", "chars_loose"]);
                    if op.n >= 0 && op.n as usize == items_of(&op.x).len() {
                        v.extend(plain(&["chars_exact", "ref_chars_exact"]));
                    }
                    v
                } else {
                    // *_sized: the iterator reports how many PIECES are left (what a slice / Vec iterator does) - not a byte count
                    let mut v = plain(&["str", "string", "box", "cow", "str_sized", "string_sized"]);
                    if true { // items that are heap LeanStrings are built as foreign blocks (shim::foreign)
                        v.extend(plain(&["lean"]));
                    }
                    v
                }
            }
            "collect" => {
                if op.v == "chars" {
                    let mut v = plain(&["chars", "ref_chars", "chars_loose"]);
                    if op.n >= 0 && op.n as usize == items_of(&op.x).len() {
                        v.extend(plain(&["chars_exact", "ref_chars_exact"]));
                    }
                    v
                } else {
                    // *_sized: the iterator reports how many PIECES are left (what a slice / Vec iterator does) - not a byte count
                    let mut v = plain(&["str", "string", "box", "cow", "str_sized", "string_sized"]);
                    if true { // items that are heap LeanStrings are built as foreign blocks (shim::foreign)
                        v.extend(plain(&["lean"]));
                    }
                    v
                }
            }
            _ => vec![("".into(), op.t)],
        }
    }

    fn size_arg(&self, op: &mut Op, with_len: bool, pick: usize) -> usize {
        if op.n >= 0 {
            return op.n as usize;
        }
        if !op.raw.is_empty() {
            return op.raw.parse().unwrap();
        }
        let len = if with_len { self.ls[op.h - 1].as_ref().map(|s| s.len()).unwrap_or(0) } else { 0 };
        let c = materialize(op.n, len, with_len);
        let v = c[pick % c.len()];
        op.raw = v.to_string();
        v
    }

    /// Executes `op` on the real crate (and on String); `pick` selects among the concrete values
    /// of a symbolic size class.
    pub fn exec(&mut self, op: &mut Op, pick: usize) -> CallRes {
        let mut res = CallRes::default();
        let mut res_shim_extra: Vec<String> = vec![];
        // ------------------------------------------------------------------- the real crate
        let before = shim::begin_call(&op.f);
        crate::gate::take_extra();
        let out = catch_unwind(AssertUnwindSafe(|| self.exec_lean(op, pick)));
        let st = shim::end_call(before);
        // allocator requests of the crate outside its buffer allocator (a panic's own machinery allocates: not counted)
        let extra = crate::gate::take_extra();
        res.x_a = if out.is_ok() { extra } else { 0 };
        // bytes of a guard zone or of a freed block inside a handle's own 16 bytes: something was read from outside a live
        // block (an over-read leaves no other trace). Never-written bytes of a block's own spare capacity are NOT a finding:
        // they lie inside the buffer the handle owns (benign b13 moves them into the padding).
        for (i, s) in self.ls.iter().enumerate() {
            if let Some(s) = s {
                let raw = s.__verif_raw();
                if raw[15] < 0xD0 && raw[..15].iter().any(|b| [shim::CANARY, shim::POISON].contains(b)) {
                    res_shim_extra.push(format!("out-of-bounds:handle {} holds guard / freed bytes {:02x?}", i + 1, &raw[..]));
                }
            }
        }
        res.d_a = st.d_a;
        res.d_r = st.d_r;
        res.d_d = st.d_d;
        res.inj = st.inj;
        res.nreq = st.nreq;
        res.shim = st.errors;
        res.shim.append(&mut res_shim_extra);
        match out {
            Ok(Out::Ok) => res.cls = "ok".into(),
            Ok(Out::None) => res.cls = "none".into(),
            Ok(Out::Some(v)) => {
                res.cls = "some".into();
                res.val = v
            }
            Ok(Out::Val(v)) => {
                res.cls = "ok".into();
                res.val = v
            }
            Ok(Out::Err) => {
                res.cls = "err".into();
                res.msg = "reserve".into()
            }
            Ok(Out::ErrFmt) => {
                res.cls = "err".into();
                res.msg = "fmt".into()
            }
            Ok(Out::ErrUtf16) => {
                res.cls = "err".into();
                res.msg = "utf16".into()
            }
            Err(p) => {
                res.cls = "panic".into();
                res.msg = panic_class(&*p);
                // the wording of a panic is not part of any property: a panic of an index-taking call that is
                // neither the allocation-failure panic nor the harness's callback is the index panic, etc.
                if res.msg.starts_with("other:") {
                    match op.op.as_str() {
                        "insert_str" | "remove" | "truncate" => res.msg = "index".into(),
                        "clone_ovf" => res.msg = "rcoverflow".into(),
                        "display" if op.n > 0 => res.msg = "fmt".into(),
                        _ => {}
                    }
                }
            }
        }
        // ---------------------------------------------------------------- std String oracle
        // String is not subject to the injected allocation failures: when the crate reported
        // one, the oracle is resynchronised from the crate's text instead of running the call.
        let failed = (res.cls == "err" || res.cls == "panic") && res.msg == "reserve";
        if failed {
            // text unchanged is what the oracle says; iterator-driven calls may have applied a
            // prefix of their items: adopt the crate's text only if it is such a prefix
            let h = op.h - 1;
            if op.op == "extend" {
                if let (Some(old), Some(cur)) = (self.ss[h].clone(), self.ls[h].as_ref()) {
                    let items = items_of(&op.x);
                    let mut t = old.clone().into_bytes();
                    let mut found = cur.as_bytes() == &t[..];
                    for it in &items {
                        if found {
                            break;
                        }
                        t.extend_from_slice(it);
                        found = cur.as_bytes() == &t[..];
                    }
                    if found {
                        self.ss[h] = Some(String::from_utf8(t).unwrap());
                    }
                }
            }
            res.scls = "skipped".into();
        } else {
            let so = {
                let ss = &mut self.ss;
                let statics = &self.statics;
                let o = op.clone();
                catch_unwind(AssertUnwindSafe(move || Self::exec_std(ss, statics, &o)))
            };
            match so {
                Ok((cls, val)) => {
                    res.scls = cls;
                    res.sval = val;
                }
                Err(p) => {
                    // String words its index panics differently; anything that is not the
                    // harness's own callback panic is an index panic on the oracle side
                    res.scls = "panic".into();
                    let c = panic_class(&*p);
                    res.smsg = if c == "callback" || c == "fmt" || c == "rcoverflow" { c } else { "index".into() };
                }
            }
        }
        res
    }

    fn exec_std(ss: &mut [Option<String>], statics: &[StaticText], op: &Op) -> (String, Vec<u8>) {
        let h = op.h.wrapping_sub(1);
        let ok = || ("ok".to_string(), vec![]);
        match op.op.as_str() {
            "new" | "with_capacity" => {
                ss[h] = Some(String::new());
                ok()
            }
            "from_str" | "from_char" => {
                ss[h] = Some(s_of(&op.s).to_string());
                ok()
            }
            "from_static" => {
                ss[h] = Some(s_of(&statics[op.g - 1].pristine).to_string());
                ok()
            }
            "clone" => {
                ss[h] = ss[op.g - 1].clone();
                ok()
            }
            "clone_ovf" => panic!("reference count overflow"),
            "clone_from" => {
                let src = ss[op.g - 1].clone().unwrap();
                ss[h].as_mut().unwrap().clone_from(&src);
                ok()
            }
            "drop" => {
                ss[h] = None;
                ok()
            }
            "reserve" | "shrink_to" => ok(),
            "push_str" => {
                ss[h].as_mut().unwrap().push_str(s_of(&op.s));
                ok()
            }
            "pop" => match ss[h].as_mut().unwrap().pop() {
                None => ("none".into(), vec![]),
                Some(c) => ("some".into(), c.to_string().into_bytes()),
            },
            "truncate" => {
                ss[h].as_mut().unwrap().truncate(op.n as usize);
                ok()
            }
            "clear" => {
                ss[h].as_mut().unwrap().clear();
                ok()
            }
            "remove" => {
                let c = ss[h].as_mut().unwrap().remove(op.n as usize);
                ("ok".into(), c.to_string().into_bytes())
            }
            "insert_str" => {
                ss[h].as_mut().unwrap().insert_str(op.n as usize, s_of(&op.s));
                ok()
            }
            "retain" => {
                let d = decisions_of(&op.x);
                let mut i = 0;
                ss[h].as_mut().unwrap().retain(|_| {
                    let k = d.get(i).copied().unwrap_or(1);
                    i += 1;
                    if k == 2 {
                        panic!("{}", CB_PANIC);
                    }
                    k == 1
                });
                ok()
            }
            "extend" => {
                let items = items_of(&op.x);
                let it = Items { it: items.iter().map(|b| s_of(b)), calls: 0, m: op.m, hint: 0, exact: false, loose: false };
                ss[h].as_mut().unwrap().extend(it);
                ok()
            }
            "collect" => {
                let items = items_of(&op.x);
                let it = Items { it: items.iter().map(|b| s_of(b)), calls: 0, m: op.m, hint: 0, exact: false, loose: false };
                let s: String = it.collect();
                ss[h] = Some(s);
                ok()
            }
            "from_utf8_lossy" => {
                ss[h] = Some(String::from_utf8_lossy(&op.s).into_owned());
                ok()
            }
            "from_utf16" => match String::from_utf16(&units_of(&op.x)) {
                Ok(s) => {
                    ss[h] = Some(s);
                    ok()
                }
                Err(_) => ("err".into(), vec![]),
            },
            "from_utf16_lossy" => {
                ss[h] = Some(String::from_utf16_lossy(&units_of(&op.x)));
                ok()
            }
            "compare" => {
                let (a, b) = (ss[h].as_ref().unwrap(), ss[op.g - 1].as_ref().unwrap());
                ("ok".into(), vec![(a == b) as u8, match a.cmp(b) { std::cmp::Ordering::Less => 0, std::cmp::Ordering::Equal => 1, std::cmp::Ordering::Greater => 2 }, 1])
            }
            "display" => {
                // to_string() of the same Display value
                let items = items_of(&op.x);
                let p = Pieces { pieces: &items, fail_at: op.n, panic_at: op.m, calls: Default::default() };
                let mut s = String::new();
                match write!(s, "{}", p) {
                    Ok(()) => {
                        ss[h] = Some(s);
                        ok()
                    }
                    Err(_) => {
                        if op.t == 1 {
                            ("err".into(), vec![])
                        } else {
                            panic!("an error occurred when formatting an argument")
                        }
                    }
                }
            }
            _ => ("unknown".into(), vec![]),
        }
    }

    fn exec_lean(&mut self, op: &mut Op, pick: usize) -> Out {
        let h = op.h.wrapping_sub(1);
        let tr = op.t == 1;
        macro_rules! res {
            ($e:expr) => {
                match $e {
                    Ok(_) => Out::Ok,
                    Err(_) => Out::Err,
                }
            };
        }
        match op.op.as_str() {
            "new" => {
                self.ls[h] = Some(if op.e == "default" { LeanString::default() } else { LeanString::new() });
                Out::Ok
            }
            "from_str" => {
                let s = s_of(&op.s);
                // (arguments are built first: only the call into the crate is measured for hidden allocations)
                let v = match op.e.as_str() {
                    "" => mx(|| LeanString::from(s)),
                    "string" => {
                        let a = s.to_string();
                        mx(|| LeanString::from(a))
                    }
                    // an owned argument whose capacity differs from its length must not matter
                    "string_spare" => {
                        let a = spare_string(s);
                        mx(|| LeanString::from(a))
                    }
                    "string_shortened" => {
                        let mut t = String::from("this text used to be much longer than it is going to be now");
                        t.clear();
                        t.push_str(s);
                        mx(|| LeanString::from(t))
                    }
                    "cow_o_spare" => {
                        let a = Cow::<str>::Owned(spare_string(s));
                        mx(|| LeanString::from(a))
                    }
                    "tls_string_spare" => {
                        let a = spare_string(s);
                        mx(|| a.to_lean_string())
                    }
                    "ref_string" => {
                        let a = s.to_string();
                        mx(|| LeanString::from(&a))
                    }
                    "box" => {
                        let a = s.to_string().into_boxed_str();
                        mx(|| LeanString::from(a))
                    }
                    "cow_b" => mx(|| LeanString::from(Cow::Borrowed(s))),
                    "cow_o" => {
                        let a = Cow::<str>::Owned(s.to_string());
                        mx(|| LeanString::from(a))
                    }
                    "utf8" => mx(|| LeanString::from_utf8(s.as_bytes())).unwrap(),
                    "utf8_unchecked" => mx(|| unsafe { LeanString::from_utf8_unchecked(s.as_bytes()) }),
                    "lossy" => mx(|| LeanString::from_utf8_lossy(s.as_bytes())),
                    "tls_string" => {
                        let a = s.to_string();
                        mx(|| a.to_lean_string())
                    }
                    "fromstr" => match mx(|| LeanString::from_str(s)) {
                        Ok(v) => v,
                        Err(_) => return Out::Err,
                    },
                    "try_tls_string" => match { let a = s.to_string(); mx(|| a.try_to_lean_string()) } {
                        Ok(v) => v,
                        Err(lean_string::ToLeanStringError::Reserve(_)) => return Out::Err,
                        Err(_) => return Out::ErrFmt,
                    },
                    other => panic!("harness: unknown from_str variant {other}"),
                };
                self.ls[h] = Some(v);
                Out::Ok
            }
            "from_char" => {
                let c = s_of(&op.s).chars().next().unwrap();
                let v = match op.e.as_str() {
                    "" => mx(|| LeanString::from(c)),
                    "tls" => mx(|| c.to_lean_string()),
                    _ => mx(|| LeanString::from(c)),
                };
                self.ls[h] = Some(v);
                Out::Ok
            }
            "from_static" => {
                let t = self.statics[op.g - 1].text;
                self.ls[h] = Some(mx(|| LeanString::from_static_str(t)));
                Out::Ok
            }
            "with_capacity" => {
                let n = self.size_arg(op, false, pick);
                if tr {
                    match mx(|| LeanString::try_with_capacity(n)) {
                        Ok(v) => {
                            self.ls[h] = Some(v);
                            Out::Ok
                        }
                        Err(_) => Out::Err,
                    }
                } else {
                    self.ls[h] = Some(mx(|| LeanString::with_capacity(n)));
                    Out::Ok
                }
            }
            "clone" => {
                let src = self.ls[op.g - 1].as_ref().unwrap();
                let v = match op.e.as_str() {
                    "" => mx(|| src.clone()),
                    "from_ref" => mx(|| LeanString::from(src)),
                    "tls" => mx(|| src.to_lean_string()),
                    "try_tls" => mx(|| src.try_to_lean_string()).unwrap(),
                    other => panic!("harness: unknown clone variant {other}"),
                };
                self.ls[h] = Some(v);
                Out::Ok
            }
            "clone_ovf" => {
                // the count is pushed above isize::MAX through the hook, the clone must panic and roll its increment back
                let src = self.ls[op.g - 1].as_ref().unwrap();
                let real = src.__verif_refcount().unwrap_or(0);
                let high = isize::MAX as usize + 1;
                src.__verif_poke_refcount(high);
                let r = catch_unwind(AssertUnwindSafe(|| src.clone()));
                let after = src.__verif_refcount().unwrap_or(0);
                src.__verif_poke_refcount(real);
                match r {
                    Ok(c) => {
                        std::mem::forget(c);
                        panic!("harness: clone succeeded although the count was above isize::MAX")
                    }
                    Err(p) => {
                        if after != high {
                            panic!("harness: the overflowing clone left the count at {after:#x} instead of rolling back to {high:#x}")
                        }
                        std::panic::resume_unwind(p)
                    }
                }
            }
            "clone_from" => {
                let src = self.ls[op.g - 1].take().unwrap();
                let r = catch_unwind(AssertUnwindSafe(|| mx(|| self.ls[h].as_mut().unwrap().clone_from(&src))));
                self.ls[op.g - 1] = Some(src);
                if let Err(p) = r {
                    std::panic::resume_unwind(p);
                }
                Out::Ok
            }
            "drop" => {
                self.ls[h] = None;
                Out::Ok
            }
            "reserve" => {
                let n = self.size_arg(op, true, pick);
                let s = self.ls[h].as_mut().unwrap();
                if tr {
                    res!(mx(|| s.try_reserve(n)))
                } else {
                    mx(|| s.reserve(n));
                    Out::Ok
                }
            }
            "shrink_to" => {
                let n = self.size_arg(op, false, pick);
                let s = self.ls[h].as_mut().unwrap();
                match (op.e.as_str(), tr) {
                    ("fit", true) => res!(mx(|| s.try_shrink_to_fit())),
                    ("fit", false) => {
                        mx(|| s.shrink_to_fit());
                        Out::Ok
                    }
                    (_, true) => res!(mx(|| s.try_shrink_to(n))),
                    (_, false) => {
                        mx(|| s.shrink_to(n));
                        Out::Ok
                    }
                }
            }
            "push_str" => {
                let a = s_of(&op.s);
                if op.e == "add" {
                    let s = self.ls[h].take().unwrap();
                    self.ls[h] = Some(mx(|| s + a));
                    return Out::Ok;
                }
                let s = self.ls[h].as_mut().unwrap();
                match (op.e.as_str(), tr) {
                    ("", true) => res!(mx(|| s.try_push_str(a))),
                    ("", false) => {
                        mx(|| s.push_str(a));
                        Out::Ok
                    }
                    ("push", true) => res!(mx(|| s.try_push(a.chars().next().unwrap()))),
                    ("push", false) => {
                        mx(|| s.push(a.chars().next().unwrap()));
                        Out::Ok
                    }
                    ("add_assign", _) => {
                        mx(|| *s += a);
                        Out::Ok
                    }
                    ("write_str", _) => {
                        mx(|| s.write_str(a)).unwrap();
                        Out::Ok
                    }
                    ("write_lit", _) => {
                        mx(|| write_literal(a, Some(s))).unwrap().unwrap();
                        Out::Ok
                    }
                    ("write_fmt", _) => {
                        mx(|| write!(s, "{}", a)).unwrap();
                        Out::Ok
                    }
                    (other, _) => panic!("harness: unknown push_str variant {other}"),
                }
            }
            "pop" => {
                let s = self.ls[h].as_mut().unwrap();
                let r = if tr {
                    match mx(|| s.try_pop()) {
                        Ok(r) => r,
                        Err(_) => return Out::Err,
                    }
                } else {
                    mx(|| s.pop())
                };
                match r {
                    None => Out::None,
                    Some(c) => Out::Some(c.to_string().into_bytes()),
                }
            }
            "truncate" => {
                let s = self.ls[h].as_mut().unwrap();
                if tr {
                    res!(mx(|| s.try_truncate(op.n as usize)))
                } else {
                    mx(|| s.truncate(op.n as usize));
                    Out::Ok
                }
            }
            "clear" => {
                mx(|| self.ls[h].as_mut().unwrap().clear());
                Out::Ok
            }
            "remove" => {
                let s = self.ls[h].as_mut().unwrap();
                let c = if tr {
                    match mx(|| s.try_remove(op.n as usize)) {
                        Ok(c) => c,
                        Err(_) => return Out::Err,
                    }
                } else {
                    mx(|| s.remove(op.n as usize))
                };
                Out::Val(c.to_string().into_bytes())
            }
            "insert_str" => {
                let a = s_of(&op.s);
                let s = self.ls[h].as_mut().unwrap();
                match (op.e.as_str(), tr) {
                    ("insert", true) => res!(mx(|| s.try_insert(op.n as usize, a.chars().next().unwrap()))),
                    ("insert", false) => {
                        mx(|| s.insert(op.n as usize, a.chars().next().unwrap()));
                        Out::Ok
                    }
                    (_, true) => res!(mx(|| s.try_insert_str(op.n as usize, a))),
                    (_, false) => {
                        mx(|| s.insert_str(op.n as usize, a));
                        Out::Ok
                    }
                }
            }
            "retain" => {
                let d = decisions_of(&op.x);
                let mut i = 0;
                let pred = |_c: char| {
                    let k = d.get(i).copied().unwrap_or(1);
                    i += 1;
                    if k == 2 {
                        panic!("{}", CB_PANIC);
                    }
                    k == 1
                };
                let s = self.ls[h].as_mut().unwrap();
                if tr {
                    res!(mx(|| s.try_retain(pred)))
                } else {
                    mx(|| s.retain(pred));
                    Out::Ok
                }
            }
            "extend" => {
                let items = items_of(&op.x);
                let hint = if op.v == "chars" { self.size_arg(op, true, pick) } else { 0 };
                let m = op.m;
                let s = self.ls[h].as_mut().unwrap();
                let e = if op.e.is_empty() { if op.v == "chars" { "chars" } else { "str" } } else { op.e.as_str() };
                let exact = e.ends_with("_exact");
                let e_loose = e.ends_with("_loose");
                let e = e.trim_end_matches("_exact").trim_end_matches("_loose");
                match e {
                    "chars" => mx(|| s.extend(Items { it: items.iter().map(|b| s_of(b).chars().next().unwrap()), calls: 0, m, hint, exact, loose: e_loose })),
                    "ref_chars" => {
                        let cs: Vec<char> = items.iter().map(|b| s_of(b).chars().next().unwrap()).collect();
                        mx(|| s.extend(Items { it: cs.iter(), calls: 0, m, hint, exact, loose: e_loose }))
                    }
                    "str" => mx(|| s.extend(Items { it: items.iter().map(|b| s_of(b)), calls: 0, m, hint, exact, loose: e_loose })),
                    "str_sized" => mx(|| s.extend(Items { it: items.iter().map(|b| s_of(b)), calls: 0, m, hint: items.len(), exact: true, loose: false })),
                    "string_sized" => mx(|| s.extend(Items { it: items.iter().map(|b| s_of(b).to_string()), calls: 0, m, hint: items.len(), exact: true, loose: false })),
                    "string" => mx(|| s.extend(Items { it: items.iter().map(|b| s_of(b).to_string()), calls: 0, m, hint, exact, loose: e_loose })),
                    "box" => mx(|| s.extend(Items { it: items.iter().map(|b| s_of(b).to_string().into_boxed_str()), calls: 0, m, hint, exact, loose: e_loose })),
                    "cow" => mx(|| s.extend(Items { it: items.iter().map(|b| Cow::Borrowed(s_of(b))), calls: 0, m, hint, exact, loose: e_loose })),
                    "lean" => mx(|| s.extend(Items { it: items.iter().map(|b| shim::foreign(|| LeanString::from(s_of(b)))), calls: 0, m, hint, exact, loose: e_loose })),
                    other => panic!("harness: unknown extend variant {other}"),
                }
                Out::Ok
            }
            "collect" => {
                let items = items_of(&op.x);
                let hint = if op.v == "chars" { self.size_arg(op, false, pick) } else { 0 };
                let m = op.m;
                let e = if op.e.is_empty() { if op.v == "chars" { "chars" } else { "str" } } else { op.e.as_str() };
                let exact = e.ends_with("_exact");
                let e_loose = e.ends_with("_loose");
                let e = e.trim_end_matches("_exact").trim_end_matches("_loose");
                let v: LeanString = match e {
                    "chars" => mx(|| Items { it: items.iter().map(|b| s_of(b).chars().next().unwrap()), calls: 0, m, hint, exact, loose: e_loose }.collect()),
                    "ref_chars" => {
                        let cs: Vec<char> = items.iter().map(|b| s_of(b).chars().next().unwrap()).collect();
                        mx(|| Items { it: cs.iter(), calls: 0, m, hint, exact, loose: e_loose }.collect())
                    }
                    "str" => mx(|| Items { it: items.iter().map(|b| s_of(b)), calls: 0, m, hint, exact, loose: e_loose }.collect()),
                    "str_sized" => mx(|| Items { it: items.iter().map(|b| s_of(b)), calls: 0, m, hint: items.len(), exact: true, loose: false }.collect()),
                    "string_sized" => mx(|| Items { it: items.iter().map(|b| s_of(b).to_string()), calls: 0, m, hint: items.len(), exact: true, loose: false }.collect()),
                    "string" => mx(|| Items { it: items.iter().map(|b| s_of(b).to_string()), calls: 0, m, hint, exact, loose: e_loose }.collect()),
                    "box" => mx(|| Items { it: items.iter().map(|b| s_of(b).to_string().into_boxed_str()), calls: 0, m, hint, exact, loose: e_loose }.collect()),
                    "cow" => mx(|| Items { it: items.iter().map(|b| Cow::Borrowed(s_of(b))), calls: 0, m, hint, exact, loose: e_loose }.collect()),
                    "lean" => mx(|| Items { it: items.iter().map(|b| shim::foreign(|| LeanString::from(s_of(b)))), calls: 0, m, hint, exact, loose: e_loose }.collect()),
                    other => panic!("harness: unknown collect variant {other}"),
                };
                self.ls[h] = Some(v);
                Out::Ok
            }
            "from_utf8_lossy" => {
                self.ls[h] = Some(mx(|| LeanString::from_utf8_lossy(&op.s)));
                Out::Ok
            }
            "from_utf16" => match { let u = units_of(&op.x); mx(|| LeanString::from_utf16(&u)) } {
                Ok(s) => {
                    self.ls[h] = Some(s);
                    Out::Ok
                }
                Err(_) => Out::ErrUtf16,
            },
            "from_utf16_lossy" => {
                self.ls[h] = Some({ let u = units_of(&op.x); mx(|| LeanString::from_utf16_lossy(&u)) });
                Out::Ok
            }
            "compare" => {
                let a = self.ls[h].as_ref().unwrap();
                let b = self.ls[op.g - 1].as_ref().unwrap();
                Out::Val(compare_all(a, b))
            }
            "display" => {
                // to_lean_string() of a user Display type writing its text in pieces
                let items = items_of(&op.x);
                let p = Pieces { pieces: &items, fail_at: op.n, panic_at: op.m, calls: Default::default() };
                if tr {
                    match mx(|| p.try_to_lean_string()) {
                        Ok(v) => {
                            self.ls[h] = Some(v);
                            Out::Ok
                        }
                        Err(lean_string::ToLeanStringError::Reserve(_)) => Out::Err,
                        Err(lean_string::ToLeanStringError::Fmt(_)) => Out::ErrFmt,
                    }
                } else {
                    self.ls[h] = Some(mx(|| p.to_lean_string()));
                    Out::Ok
                }
            }
            other => panic!("harness: unknown op {other}"),
        }
    }

    // ------------------------------------------------------------------ observation
    pub fn observe(&self) -> Value {
        let mut hd = Vec::with_capacity(self.ls.len());
        let mut nic = true;
        for s in self.ls.iter() {
            match s {
                None => hd.push(json!({"k":"D","text":[],"len":0,"cap":0,"last":0,"pc":"none","pid":0,"rc":0,"heap":false,"rd":""})),
                Some(s) => {
                    let raw = s.__verif_raw();
                    let last = raw[15];
                    let k = match last {
                        208 => "H",
                        209 => "S",
                        0..=207 => "I",
                        _ => "?",
                    };
                    let p = s.as_ptr() as usize;
                    let me = s as *const LeanString as usize;
                    let (pc, pid) = if p >= me && p < me + 16 {
                        ("self", 0)
                    } else if let Some(b) = shim::find_block(p.wrapping_sub(shim::HEADER)).filter(|b| b.user + shim::HEADER == p).or_else(|| shim::find_block(p)) {
                        if b.live && p == b.user + shim::HEADER { ("heap", b.id) } else if b.live { ("heap-inner", b.id) } else { ("freed", b.id) }
                    } else if let Some(i) = self.statics.iter().position(|t| t.base == p) {
                        ("static", i + 1)
                    } else {
                        ("unknown", 0)
                    };
                    // Some(s) must be Some: the niche values are never a reachable last byte
                    let o: Option<LeanString> = Some(unsafe { std::ptr::read(s) });
                    if o.is_none() {
                        nic = false;
                    }
                    std::mem::forget(o);
                    hd.push(json!({"k":k,"text":s.as_bytes(),"len":s.len(),"cap":s.capacity(),"last":last,
                        "pc":pc,"pid":pid,"rc":s.__verif_refcount().unwrap_or(0),"heap":s.is_heap_allocated(),"rd":readers_disagree(s)}));
                }
            }
        }
        let mut blk = vec![0usize; self.maxbufs];
        let mut extra = vec![];
        for (id, size) in shim::live_blocks() {
            if id >= 1 && id <= self.maxbufs {
                blk[id - 1] = size;
            } else {
                extra.push(json!([id, size]));
            }
        }
        let sok = self.statics.iter().all(|t| unsafe { std::slice::from_raw_parts(t.base as *const u8, t.len) } == &t.pristine[..]);
        let mut o = json!({"hd":hd,"blk":blk,"sok":sok,"nic":nic});
        if !extra.is_empty() {
            o["xblk"] = json!(extra);
        }
        o
    }

    /// what String holds, per slot (for the "specification agrees with std" cross-check)
    pub fn std_texts(&self) -> Value {
        Value::Array(self.ss.iter().map(|s| match s {
            None => json!([-1]),
            Some(s) => json!(s.as_bytes()),
        }).collect())
    }
}

/// The names of the readers that disagree with `as_bytes()` ("" when all read the one text).
pub fn readers_disagree(s: &LeanString) -> String {
    use std::borrow::Borrow;
    let b = s.as_bytes();
    let mut bad = vec![];
    if s.as_str().as_bytes() != b {
        bad.push("as_str");
    }
    if s.len() != b.len() {
        bad.push("len");
    }
    if s.is_empty() != b.is_empty() {
        bad.push("is_empty");
    }
    if (**s).as_bytes() != b {
        bad.push("deref");
    }
    if <LeanString as AsRef<str>>::as_ref(s).as_bytes() != b {
        bad.push("as_ref_str");
    }
    if <LeanString as AsRef<[u8]>>::as_ref(s) != b {
        bad.push("as_ref_bytes");
    }
    if <LeanString as Borrow<str>>::borrow(s).as_bytes() != b {
        bad.push("borrow");
    }
    if String::from(s).as_bytes() != b {
        bad.push("into_string");
    }
    #[cfg(feature = "ls-std")]
    if <LeanString as AsRef<std::ffi::OsStr>>::as_ref(s).as_encoded_bytes() != b {
        bad.push("as_ref_osstr");
    }
    bad.join(",")
}

/// Every observation of C17 on a pair: [a == b, a.cmp(b), "all other forms agree with the text"].
pub fn compare_all(a: &LeanString, b: &LeanString) -> Vec<u8> {
    use std::collections::hash_map::DefaultHasher;
    use std::collections::{BTreeMap, HashMap};
    use std::hash::{Hash, Hasher};
    let (ta, tb) = (a.as_str().to_string(), b.as_str().to_string());
    let eq = a == b;
    let ord = a.cmp(b);
    let mut ok = true;
    // equality in every type / order combination must agree with the texts
    let te = ta == tb;
    let cow_b: Cow<str> = Cow::Borrowed(tb.as_str());
    let cow_o: Cow<str> = Cow::Owned(tb.clone());
    ok &= (a == b) == te && (b == a) == te && (a != b) != te;
    ok &= (*a == *tb.as_str()) == te && (*tb.as_str() == *a) == te;
    ok &= (*a == tb.as_str()) == te && (tb.as_str() == *a) == te;
    ok &= (*a == tb) == te && (tb == *a) == te;
    ok &= (*a == cow_b) == te && (cow_b == *a) == te && (*a == cow_o) == te && (cow_o == *a) == te;
    // ordering
    ok &= ord == ta.as_str().cmp(tb.as_str()) && a.partial_cmp(b) == Some(ord) && b.cmp(a) == ord.reverse();
    ok &= (a < b) == (ta < tb) && (a >= b) == (ta >= tb);
    // hashing: same as the &str of the text (so a LeanString key can be looked up by &str)
    let h = |x: &dyn Fn(&mut DefaultHasher)| {
        let mut s = DefaultHasher::new();
        x(&mut s);
        s.finish()
    };
    ok &= h(&|s| a.hash(s)) == h(&|s| ta.as_str().hash(s)) && h(&|s| b.hash(s)) == h(&|s| tb.as_str().hash(s));
    if te {
        ok &= h(&|s| a.hash(s)) == h(&|s| b.hash(s));
    }
    // ... under ANY hasher: the calls made on the Hasher (which method, which bytes) are those str / String make
    // (a hasher need not be a byte stream: write_u64(x) and write(&x.to_ne_bytes()) may hash differently)
    #[derive(Default, PartialEq, Debug)]
    struct Calls(Vec<(&'static str, Vec<u8>)>);
    impl Hasher for Calls {
        fn finish(&self) -> u64 {
            0
        }
        fn write(&mut self, b: &[u8]) {
            self.0.push(("write", b.to_vec()))
        }
        fn write_u8(&mut self, i: u8) {
            self.0.push(("u8", vec![i]))
        }
        fn write_u16(&mut self, i: u16) {
            self.0.push(("u16", i.to_ne_bytes().to_vec()))
        }
        fn write_u32(&mut self, i: u32) {
            self.0.push(("u32", i.to_ne_bytes().to_vec()))
        }
        fn write_u64(&mut self, i: u64) {
            self.0.push(("u64", i.to_ne_bytes().to_vec()))
        }
        fn write_u128(&mut self, i: u128) {
            self.0.push(("u128", i.to_ne_bytes().to_vec()))
        }
        fn write_usize(&mut self, i: usize) {
            self.0.push(("usize", i.to_ne_bytes().to_vec()))
        }
    }
    let calls = |x: &dyn Fn(&mut Calls)| {
        let mut c = Calls::default();
        x(&mut c);
        c
    };
    ok &= calls(&|s| a.hash(s)) == calls(&|s| ta.as_str().hash(s)) && calls(&|s| a.hash(s)) == calls(&|s| ta.hash(s));
    ok &= calls(&|s| b.hash(s)) == calls(&|s| tb.as_str().hash(s)) && calls(&|s| b.hash(s)) == calls(&|s| cow_b.hash(s));
    // formatting
    ok &= format!("{a}") == ta && format!("{a:?}") == format!("{:?}", ta.as_str()) && format!("{b}") == tb && format!("{b:?}") == format!("{:?}", tb.as_str());
    ok &= format!("{a:>30}") == format!("{:>30}", ta.as_str());
    ok &= format!("{a:.3}") == format!("{:.3}", ta.as_str()) && format!("{a:*^9.4}") == format!("{:*^9.4}", ta.as_str()) && format!("{b:<5}|") == format!("{:<5}|", tb.as_str());
    ok &= format!("{a:#?}") == format!("{:#?}", ta.as_str()) && format!("{:?}", Some(a)) == format!("{:?}", Some(ta.as_str()));
    // views
    ok &= <LeanString as AsRef<str>>::as_ref(a) == ta && <LeanString as AsRef<[u8]>>::as_ref(a) == ta.as_bytes() && <LeanString as std::borrow::Borrow<str>>::borrow(a) == ta && &**a == ta.as_str();
    ok &= String::from(a) == ta && String::from(b.clone()) == tb;
    // a String extended with LeanStrings
    let mut ext = String::from("x");
    ext.extend([a.clone(), b.clone()]);
    ok &= ext == format!("x{ta}{tb}");
    // map lookups by &str
    let mut hm: HashMap<LeanString, u8> = HashMap::new();
    hm.insert(a.clone(), 1);
    ok &= hm.get(ta.as_str()) == Some(&1) && hm.contains_key(tb.as_str()) == te;
    let mut bm: BTreeMap<LeanString, u8> = BTreeMap::new();
    bm.insert(a.clone(), 1);
    ok &= bm.get(ta.as_str()) == Some(&1) && bm.contains_key(tb.as_str()) == te;
    vec![eq as u8, match ord { std::cmp::Ordering::Less => 0, std::cmp::Ordering::Equal => 1, std::cmp::Ordering::Greater => 2 }, ok as u8]
}

pub fn call_json(op: &Op, r: &CallRes) -> Value {
    json!({"op":op.op,"v":op.v,"t":op.t,"h":op.h,"g":op.g,"n":op.n,"m":op.m,"s":op.s,"x":if op.x.is_null() { json!([]) } else { op.x.clone() },
           "f":op.f,"e":op.e,"raw":op.raw,
           "cls":r.cls,"val":r.val,"msg":r.msg,"dA":r.d_a,"dR":r.d_r,"dD":r.d_d,"inj":r.inj,"nreq":r.nreq,"shim":r.shim,"xA":r.x_a,
           "scls":r.scls,"sval":r.sval,"smsg":r.smsg})
}
