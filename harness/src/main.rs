mod conc;
mod convert;
mod drive;
mod gate;
mod pool;
mod replay;
mod shim;
mod trace;

fn arg(args: &[String], name: &str) -> Option<String> {
    args.iter().position(|a| a == name).and_then(|i| args.get(i + 1).cloned())
}

/// Counts allocator requests that do not go through the crate's hooked buffer allocator (see gate::mx).
struct CountingAlloc;
unsafe impl std::alloc::GlobalAlloc for CountingAlloc {
    unsafe fn alloc(&self, l: std::alloc::Layout) -> *mut u8 {
        gate::extra_note();
        unsafe { std::alloc::System.alloc(l) }
    }
    unsafe fn alloc_zeroed(&self, l: std::alloc::Layout) -> *mut u8 {
        gate::extra_note();
        unsafe { std::alloc::System.alloc_zeroed(l) }
    }
    unsafe fn realloc(&self, p: *mut u8, l: std::alloc::Layout, n: usize) -> *mut u8 {
        gate::extra_note();
        unsafe { std::alloc::System.realloc(p, l, n) }
    }
    unsafe fn dealloc(&self, p: *mut u8, l: std::alloc::Layout) {
        unsafe { std::alloc::System.dealloc(p, l) }
    }
}
#[global_allocator]
static GLOBAL: CountingAlloc = CountingAlloc;

fn main() {
    let args: Vec<String> = std::env::args().collect();
    // panics in the code under test are data, not noise
    std::panic::set_hook(Box::new(|info| {
        if std::env::var("LSVERIF_SHOW_PANICS").is_ok() {
            eprintln!("{info}");
        }
    }));
    shim::install();
    let cmd = args.get(1).map(|s| s.as_str()).unwrap_or("");
    let code = match cmd {
        "replay" => replay::run(replay::Cfg {
            out_dir: arg(&args, "--out").unwrap_or_else(|| "out/replay".into()),
            variants: arg(&args, "--variants").map(|v| v != "default").unwrap_or(true),
            max_mismatch_traces: arg(&args, "--max-mismatch").and_then(|v| v.parse().ok()).unwrap_or(6000),
            sample_every: arg(&args, "--sample-every").and_then(|v| v.parse().ok()).unwrap_or(500),
            want_ex: arg(&args, "--want-ex").map(|v| v.split(',').map(|s| s.to_string()).collect()).unwrap_or_default(),
        }),
        "worker" => replay::worker(arg(&args, "--variants").map(|v| v != "default").unwrap_or(true), arg(&args, "--sample-every").and_then(|v| v.parse().ok()).unwrap_or(500)),
        "drive" => drive::run(drive::DriveCfg {
            out_dir: arg(&args, "--out").unwrap_or_else(|| "out/drive".into()),
            seed: arg(&args, "--seed").and_then(|v| v.parse().ok()).unwrap_or(1),
            files: arg(&args, "--files").and_then(|v| v.parse().ok()).unwrap_or(4),
            histories: arg(&args, "--histories").and_then(|v| v.parse().ok()).unwrap_or(10),
            ops: arg(&args, "--ops").and_then(|v| v.parse().ok()).unwrap_or(100),
            mode: arg(&args, "--mode").unwrap_or_else(|| "mixed".into()),
            nh: arg(&args, "--nh").and_then(|v| v.parse().ok()).unwrap_or(4),
        }),
        "drive-one" => drive::run_one(
            drive::DriveCfg {
                out_dir: arg(&args, "--out").unwrap(),
                seed: arg(&args, "--seed").and_then(|v| v.parse().ok()).unwrap_or(1),
                files: 1,
                histories: arg(&args, "--histories").and_then(|v| v.parse().ok()).unwrap_or(10),
                ops: arg(&args, "--ops").and_then(|v| v.parse().ok()).unwrap_or(100),
                mode: arg(&args, "--mode").unwrap_or_else(|| "mixed".into()),
                nh: arg(&args, "--nh").and_then(|v| v.parse().ok()).unwrap_or(4),
            },
            arg(&args, "--file").and_then(|v| v.parse().ok()).unwrap_or(0),
        ),
        "conc" => conc::run(
            &arg(&args, "--out").unwrap_or_else(|| "out/conc".into()),
            arg(&args, "--sample-every").and_then(|v| v.parse().ok()).unwrap_or(50),
            arg(&args, "--max-runs").and_then(|v| v.parse().ok()).unwrap_or(0),
            args.iter().any(|a| a == "--isolate"),
        ),
        "conc-one" => conc::run_one_child(),
        "codec" => convert::codec(&arg(&args, "--out").unwrap_or_else(|| "out/codec".into())),
        "conv" => convert::conv(
            &arg(&args, "--out").unwrap_or_else(|| "out/conv".into()),
            arg(&args, "--files").and_then(|v| v.parse().ok()).unwrap_or(8),
            arg(&args, "--tier").map(|t| t == "thorough").unwrap_or(false),
            arg(&args, "--seed").and_then(|v| v.parse().ok()).unwrap_or(1),
        ),
        "scale" => convert::scale(
            &arg(&args, "--out").unwrap_or_else(|| "out/scale".into()),
            arg(&args, "--tier").map(|t| t == "thorough").unwrap_or(false),
            arg(&args, "--seed").and_then(|v| v.parse().ok()).unwrap_or(1),
        ),
        "sweep" => convert::sweep(&arg(&args, "--out").unwrap_or_else(|| "out/sweep".into()), &arg(&args, "--what").unwrap_or_else(|| "u32".into())),
        "conc-probe" => conc::probe(),
        "rerun" => drive::rerun(&arg(&args, "--in").expect("--in"), &arg(&args, "--out").expect("--out")),
        _ => {
            eprintln!("usage: lsverif replay|drive|... [options]");
            2
        }
    };
    std::process::exit(code);
}
