//! Pipeline B: replay every transition TLC explored on the real crate.
//!
//! stdin: TLC's output. `"HDR {json}"` gives the pool shape, every `"EDGE {json}"` line is one
//! transition: the witness path (ops from the empty pool), the observation the design model
//! predicts after the last op, and that op's predicted outcome.

use crate::pool::{Op, Pool, call_json};
use crate::trace::TraceWriter;
use serde_json::{Value, json};
use std::collections::BTreeMap;
use std::io::BufRead;

pub struct Cfg {
    pub out_dir: String,
    pub variants: bool,
    pub max_mismatch_traces: usize,
    pub sample_every: usize,
}

fn diff_fields(exp: &Value, got: &Value, path: &str, out: &mut Vec<String>) {
    match (exp, got) {
        (Value::Object(a), Value::Object(b)) => {
            for (k, v) in a {
                match b.get(k) {
                    Some(w) => diff_fields(v, w, &format!("{path}.{k}"), out),
                    None => out.push(format!("{path}.{k}")),
                }
            }
        }
        (Value::Array(a), Value::Array(b)) if a.len() == b.len() && path.ends_with("hd") => {
            for (i, (v, w)) in a.iter().zip(b).enumerate() {
                diff_fields(v, w, &format!("{path}[{}]", i + 1), out)
            }
        }
        _ => {
            if exp != got {
                out.push(path.to_string())
            }
        }
    }
}

pub fn run(cfg: Cfg) -> i32 {
    let stdin = std::io::stdin();
    let mut nh = 0usize;
    let mut maxbufs = 0usize;
    let mut statics: Vec<Vec<u8>> = vec![];
    let mut edges = 0u64;
    let mut executions = 0u64;
    let mut steps = 0u64;
    let mut mismatched_edges = 0u64;
    let mut mismatch_fields: BTreeMap<String, u64> = BTreeMap::new();
    let mut spec_errors = 0u64;
    let mut spec_error_samples: Vec<Value> = vec![];
    let mut ex_counts: BTreeMap<String, u64> = BTreeMap::new();
    let mut op_counts: BTreeMap<String, u64> = BTreeMap::new();
    let mut variant_counts: BTreeMap<String, u64> = BTreeMap::new();
    let mut samples: Vec<Value> = vec![];
    let mut tlc_tail: Vec<String> = vec![];
    let mut failing_lines: Vec<String> = vec![];
    std::fs::create_dir_all(&cfg.out_dir).unwrap();
    let mut mm = TraceWriter::create(&format!("{}/mismatch.ndjson", cfg.out_dir));
    let mut sm = TraceWriter::create(&format!("{}/sample.ndjson", cfg.out_dir));
    let mut mm_written = 0usize;

    for line in stdin.lock().lines() {
        let line = match line {
            Ok(l) => l,
            Err(_) => continue,
        };
        if !line.starts_with('"') {
            if line.contains("FAILING") || !failing_lines.is_empty() && failing_lines.len() < 60 {
                failing_lines.push(line.clone());
            }
            if tlc_tail.len() > 400 {
                tlc_tail.remove(0);
            }
            tlc_tail.push(line);
            continue;
        }
        let inner: String = match serde_json::from_str(&line) {
            Ok(s) => s,
            Err(_) => continue,
        };
        if let Some(j) = inner.strip_prefix("HDR ") {
            let v: Value = serde_json::from_str(j).unwrap();
            nh = v["nh"].as_u64().unwrap() as usize;
            maxbufs = v["maxbufs"].as_u64().unwrap() as usize;
            statics = serde_json::from_value(v["statics"].clone()).unwrap();
            continue;
        }
        let Some(j) = inner.strip_prefix("EDGE ") else { continue };
        let v: Value = match serde_json::from_str(j) {
            Ok(v) => v,
            Err(e) => {
                eprintln!("unparsable EDGE line: {e}");
                return 2;
            }
        };
        edges += 1;
        let path: Vec<Op> = serde_json::from_value(v["path"].clone()).expect("path");
        let exp_o = &v["o"];
        let exp_c = &v["c"];
        for e in v["ex"].as_array().into_iter().flatten() {
            *ex_counts.entry(e.as_str().unwrap_or("?").to_string()).or_default() += 1;
        }
        let last = path.last().unwrap().clone();
        *op_counts.entry(last.op.clone()).or_default() += 1;
        let probe = Pool::new(nh, maxbufs, &[]);
        let variants = if cfg.variants { probe.variants(&last) } else { vec![(String::new(), last.t)] };
        let picks = if last.n < 0 { crate::pool::materialize(last.n, 1, true).len() } else { 1 };
        for (e, t) in variants.iter() {
            for pick in 0..picks {
                executions += 1;
                *variant_counts.entry(format!("{}:{}{}", last.op, e, if *t == 1 { "?" } else { "" })).or_default() += 1;
                let mut pool = Pool::new(nh, maxbufs, &statics);
                let mut recs: Vec<(Value, Value, Value)> = Vec::with_capacity(path.len());
                let mut final_res = None;
                for (i, op) in path.iter().enumerate() {
                    let mut op = op.clone();
                    if i + 1 == path.len() {
                        op.e = e.clone();
                        op.t = *t;
                    }
                    let r = pool.exec(&mut op, pick);
                    steps += 1;
                    let o = pool.observe();
                    recs.push((call_json(&op, &r), o, pool.std_texts()));
                    if i + 1 == path.len() {
                        final_res = Some(r);
                    }
                }
                let r = final_res.unwrap();
                let got_o = recs.last().unwrap().1.clone();
                let end_errs = pool.finish();
                // ---- compare with the design model's prediction
                let mut diffs = vec![];
                diff_fields(exp_o, &got_o, "o", &mut diffs);
                let got_c = json!({"cls":r.cls,"val":r.val,"msg":r.msg,"dA":r.d_a,"dR":r.d_r,"dD":r.d_d,"inj":r.inj,"nreq":r.nreq,"shim":r.shim});
                let mut exp_c2 = json!({});
                for k in ["cls", "val", "msg", "dA", "dR", "dD", "inj", "nreq", "shim"] {
                    exp_c2[k] = exp_c[k].clone();
                }
                diff_fields(&exp_c2, &got_c, "c", &mut diffs);
                if !end_errs.is_empty() {
                    diffs.push("end".into());
                }
                // ---- the specification must agree with std String (else the spec is wrong)
                let failed = r.cls == "err" || (r.cls == "panic" && r.msg == "reserve");
                let exp_failed = exp_c["cls"] == "err" || (exp_c["cls"] == "panic" && exp_c["msg"] == "reserve");
                if !failed && !exp_failed && last.op != "write_display" {
                    let std = recs.last().unwrap().2.clone();
                    let mut bad = false;
                    for h in 0..nh {
                        let exp_dead = exp_o["hd"][h]["k"] == "D";
                        let std_dead = std[h] == json!([-1]);
                        if exp_dead != std_dead || (!exp_dead && exp_o["hd"][h]["text"] != std[h]) {
                            bad = true;
                        }
                    }
                    let scls_ok = r.scls == exp_c["cls"].as_str().unwrap_or("") && json!(r.sval) == exp_c["val"]
                        && (r.scls != "panic" || r.smsg == exp_c["msg"].as_str().unwrap_or(""));
                    if bad || !scls_ok {
                        spec_errors += 1;
                        if spec_error_samples.len() < 5 {
                            spec_error_samples.push(json!({"path":v["path"],"std":std,"scls":r.scls,"smsg":r.smsg,"exp_c":exp_c}));
                        }
                    }
                }
                let is_sample = cfg.sample_every > 0 && (executions as usize % cfg.sample_every == 1 || executions < 30);
                if !diffs.is_empty() {
                    if pick == 0 {
                        mismatched_edges += 1;
                    }
                    for d in &diffs {
                        *mismatch_fields.entry(d.clone()).or_default() += 1;
                    }
                    if mm_written < cfg.max_mismatch_traces {
                        mm_written += 1;
                        mm.init(nh, maxbufs, &statics, &json!({"edge":edges,"variant":e,"diffs":diffs,"expected_o":exp_o,"expected_c":exp_c2}));
                        for (c, o, s) in &recs {
                            mm.call(c, o, s);
                        }
                        mm.end(&end_errs);
                    }
                } else if is_sample {
                    sm.init(nh, maxbufs, &statics, &json!({"edge":edges,"variant":e}));
                    for (c, o, s) in &recs {
                        sm.call(c, o, s);
                    }
                    sm.end(&end_errs);
                    if samples.len() < 5 {
                        samples.push(json!({"path":v["path"],"expected_after":exp_o["hd"],"result":exp_c2}));
                    }
                }
            }
        }
    }
    mm.flush();
    sm.flush();
    let summary = json!({
        "edges": edges, "executions": executions, "steps": steps,
        "mismatched_executions": mismatch_fields.values().sum::<u64>().min(u64::MAX), "mismatched_edges": mismatched_edges,
        "mismatch_fields": mismatch_fields, "mismatch_traces_written": mm_written, "mismatch_trace_events": mm.events,
        "sample_histories": sm.histories, "sample_events": sm.events,
        "spec_errors": spec_errors, "spec_error_samples": spec_error_samples,
        "exercised": ex_counts, "ops": op_counts, "variants": variant_counts, "samples": samples,
        "tlc_failing": failing_lines, "tlc_tail": tlc_tail,
    });
    std::fs::write(format!("{}/replay_summary.json", cfg.out_dir), serde_json::to_string_pretty(&summary).unwrap()).unwrap();
    println!("replay: edges={edges} executions={executions} steps={steps} mismatched_edges={mismatched_edges} spec_errors={spec_errors}");
    0
}
