//! Pipeline B: replay every transition TLC explored on the real crate.
//!
//! stdin: TLC's output. `"HDR {json}"` gives the pool shape, every `"EDGE {json}"` line is one
//! transition: the witness path (ops from the empty pool), the observation the design model
//! predicts after the last op, and that op's predicted outcome.

use crate::pool::{Op, Pool, call_json};
use crate::trace::TraceWriter;
use serde_json::{Value, json};
use std::collections::BTreeMap;
use std::io::BufRead;

pub struct Cfg {
    pub out_dir: String,
    pub variants: bool,
    pub max_mismatch_traces: usize,
    pub sample_every: usize,
    /// predicates the caller is interested in: evidence samples are taken from transitions that exercise one of them
    pub want_ex: Vec<String>,
}

fn diff_fields(exp: &Value, got: &Value, path: &str, out: &mut Vec<String>) {
    match (exp, got) {
        (Value::Object(a), Value::Object(b)) => {
            for (k, v) in a {
                match b.get(k) {
                    Some(w) => diff_fields(v, w, &format!("{path}.{k}"), out),
                    None => out.push(format!("{path}.{k}")),
                }
            }
        }
        (Value::Array(a), Value::Array(b)) if a.len() == b.len() && path.ends_with("hd") => {
            for (i, (v, w)) in a.iter().zip(b).enumerate() {
                diff_fields(v, w, &format!("{path}[{}]", i + 1), out)
            }
        }
        _ => {
            if exp != got {
                out.push(path.to_string())
            }
        }
    }
}


/// One EDGE executed under every entry-point variant; the reply the worker sends back.
fn exec_edge(v: &Value, nh: usize, maxbufs: usize, statics: &[Vec<u8>], variants_on: bool, sample_every: usize, counter: &mut usize, announce: &mut dyn FnMut(&str)) -> Value {
    let path: Vec<Op> = serde_json::from_value(v["path"].clone()).expect("path");
    let exp_o = &v["o"];
    let exp_c = &v["c"];
    let last = path.last().unwrap().clone();
    let probe = Pool::new(nh, maxbufs, &[]);
    let variants = if variants_on { probe.variants(&last) } else { probe.variants(&last).into_iter().take(1).collect() };
    let picks = if last.n < 0 { crate::pool::materialize(last.n, 1, true).len() } else { 1 };
    let mut results = vec![];
    let mut steps = 0u64;
    for (e, t) in variants.iter() {
        for pick in 0..picks {
            announce(&format!("V {} {} {}", if e.is_empty() { "-" } else { e }, t, pick));
            let mut pool = Pool::new(nh, maxbufs, statics);
            let mut recs: Vec<Value> = Vec::with_capacity(path.len());
            let mut final_res = None;
            let mut prefix_agrees = true; // crate and String held the same texts after every earlier step of the path
            for (i, op) in path.iter().enumerate() {
                let mut op = op.clone();
                if i + 1 == path.len() {
                    op.e = e.clone();
                    op.t = *t;
                }
                let r = pool.exec(&mut op, pick);
                steps += 1;
                let o = pool.observe();
                recs.push(json!({"c":call_json(&op, &r),"o":o,"std":pool.std_texts()}));
                if i + 1 == path.len() {
                    final_res = Some(r);
                } else {
                    let std = pool.std_texts();
                    for h in 0..nh {
                        let dead = o["hd"][h]["k"] == "D";
                        if dead != (std[h] == json!([-1])) || (!dead && o["hd"][h]["text"] != std[h]) {
                            prefix_agrees = false;
                        }
                    }
                }
            }
            let r = final_res.unwrap();
            let got_o = recs.last().unwrap()["o"].clone();
            let end_errs = pool.finish();
            let mut diffs = vec![];
            diff_fields(exp_o, &got_o, "o", &mut diffs);
            let got_c = json!({"cls":r.cls,"val":r.val,"msg":r.msg,"dA":r.d_a,"dR":r.d_r,"dD":r.d_d,"inj":r.inj,"nreq":r.nreq,"shim":r.shim,"xA":r.x_a});
            let mut exp_c2 = json!({});
            for k in ["cls", "val", "msg", "dA", "dR", "dD", "inj", "nreq", "shim", "xA"] {
                exp_c2[k] = exp_c[k].clone();
            }
            diff_fields(&exp_c2, &got_c, "c", &mut diffs);
            if !end_errs.is_empty() {
                diffs.push("end".into());
            }
            // the specification must agree with std String (else the spec is wrong)
            let failed = (r.cls == "err" || r.cls == "panic") && r.msg == "reserve";
            let exp_failed = (exp_c["cls"] == "err" || exp_c["cls"] == "panic") && exp_c["msg"] == "reserve";
            let mut spec_error = Value::Null;
            // (only an execution in which the crate matched the model exactly can testify against the
            // specification: a deviating crate may have corrupted the process it shares with String)
            // and only if crate and String were still in step when the final call was made: a crate that went wrong on
            // the way (its own finding, reported where that step is the final one) leaves the two apart for good)
            if diffs.is_empty() && prefix_agrees && !failed && !exp_failed && r.scls != "skipped" {
                let std = recs.last().unwrap()["std"].clone();
                let mut bad = false;
                for h in 0..nh {
                    let exp_dead = exp_o["hd"][h]["k"] == "D";
                    let std_dead = std[h] == json!([-1]);
                    if exp_dead != std_dead || (!exp_dead && exp_o["hd"][h]["text"] != std[h]) {
                        bad = true;
                    }
                }
                let scls_ok = r.scls == exp_c["cls"].as_str().unwrap_or("") && json!(r.sval) == exp_c["val"]
                    && (r.scls != "panic" || r.smsg == exp_c["msg"].as_str().unwrap_or(""));
                if bad || !scls_ok {
                    spec_error = json!({"path":v["path"],"std":std,"scls":r.scls,"smsg":r.smsg,"exp_c":exp_c});
                }
            }
            *counter += 1;
            let is_sample = sample_every > 0 && (*counter % sample_every == 1 || *counter < 30);
            if diffs.is_empty() && !is_sample {
                recs.clear();
            }
            results.push(json!({"e":e,"t":t,"pick":pick,"diffs":diffs,"spec_error":spec_error,"recs":recs,"end_errs":end_errs,"exp_c":exp_c2,"sample":is_sample}));
        }
    }
    json!({"steps":steps,"op":last.op,"results":results})
}

/// `lsverif worker`: executes edges sent by the parent, one reply line per edge. Crate code runs
/// only here, so an abort of the code under test kills the worker, not the bookkeeping.
pub fn worker(variants_on: bool, sample_every: usize) -> i32 {
    let mut counter = 0usize;
    use std::io::Write;
    let stdin = std::io::stdin();
    let stdout = std::io::stdout();
    let (mut nh, mut maxbufs, mut statics) = (0usize, 0usize, Vec::<Vec<u8>>::new());
    for line in stdin.lock().lines() {
        let Ok(line) = line else { break };
        if let Some(j) = line.strip_prefix("HDR ") {
            let v: Value = serde_json::from_str(j).unwrap();
            nh = v["nh"].as_u64().unwrap() as usize;
            maxbufs = v["maxbufs"].as_u64().unwrap() as usize;
            statics = serde_json::from_value(v["statics"].clone()).unwrap();
        } else if let Some(j) = line.strip_prefix("EDGE ") {
            let v: Value = serde_json::from_str(j).expect("edge json");
            let mut ann = |s: &str| {
                let mut o = stdout.lock();
                writeln!(o, "{s}").unwrap();
                o.flush().unwrap();
            };
            let reply = exec_edge(&v, nh, maxbufs, &statics, variants_on, sample_every, &mut counter, &mut ann);
            let deviated = reply["results"].as_array().map(|rs| rs.iter().any(|r| r["diffs"].as_array().map(|d| !d.is_empty()).unwrap_or(false))).unwrap_or(false);
            let mut o = stdout.lock();
            writeln!(o, "R {}", reply).unwrap();
            if deviated {
                // the code under test did something the model does not allow: this process may be
                // damaged (out-of-bounds writes, freed memory in use). Retire; the parent respawns.
                writeln!(o, "X").unwrap();
                o.flush().unwrap();
                return 0;
            }
            o.flush().unwrap();
        }
    }
    0
}


use std::collections::VecDeque;
use std::sync::mpsc;

struct Worker {
    child: std::process::Child,
    tx: Option<std::process::ChildStdin>,
    rx: mpsc::Receiver<Option<String>>, // None: the worker's stdout closed
    outstanding: VecDeque<(u64, String, Value)>,
    last_variant: String,
    retiring: bool,
}

fn spawn_worker(variants_on: bool, sample_every: usize, hdr: &Option<String>) -> Worker {
    use std::io::Write;
    use std::process::{Command, Stdio};
    let exe = std::env::current_exe().unwrap();
    let mut child = Command::new(exe)
        .arg("worker")
        .arg("--variants")
        .arg(if variants_on { "all" } else { "default" })
        .arg("--sample-every")
        .arg(sample_every.to_string())
        .stdin(Stdio::piped())
        .stdout(Stdio::piped())
        .stderr(Stdio::null())
        .spawn()
        .expect("spawn worker");
    let mut tx = child.stdin.take().unwrap();
    let out = child.stdout.take().unwrap();
    let (stx, rx) = mpsc::channel();
    std::thread::spawn(move || {
        let rd = std::io::BufReader::new(out);
        for l in rd.lines() {
            match l {
                Ok(l) => {
                    if stx.send(Some(l)).is_err() {
                        return;
                    }
                }
                Err(_) => break,
            }
        }
        let _ = stx.send(None);
    });
    if let Some(h) = hdr {
        let _ = writeln!(tx, "HDR {h}");
    }
    Worker { child, tx: Some(tx), rx, outstanding: VecDeque::new(), last_variant: String::new(), retiring: false }
}

struct Agg {
    cfg: Cfg,
    nh: usize,
    maxbufs: usize,
    statics: Vec<Vec<u8>>,
    hdr: Option<String>,
    edges: u64,
    executions: u64,
    steps: u64,
    mismatched_edges: u64,
    mismatch_fields: BTreeMap<String, u64>,
    spec_errors: u64,
    spec_error_samples: Vec<Value>,
    ex_counts: BTreeMap<String, u64>,
    op_counts: BTreeMap<String, u64>,
    variant_counts: BTreeMap<String, u64>,
    samples: Vec<Value>,
    wanted_samples: Vec<Value>,
    crashes: Vec<Value>,
    mm: TraceWriter,
    sm: TraceWriter,
    cr: TraceWriter,
    mm_written: usize,
    mm_kinds: BTreeMap<String, u32>,
}

impl Agg {
    fn reply(&mut self, edge_no: u64, v: &Value, reply: &Value) {
        *self.op_counts.entry(reply["op"].as_str().unwrap_or("?").to_string()).or_default() += 1;
        self.steps += reply["steps"].as_u64().unwrap_or(0);
        let mut edge_mismatch = false;
        for r in reply["results"].as_array().unwrap() {
            self.executions += 1;
            let e = r["e"].as_str().unwrap_or("");
            *self.variant_counts.entry(format!("{}:{}{}", reply["op"].as_str().unwrap_or("?"), e, if r["t"] == 1 { "?" } else { "" })).or_default() += 1;
            if !r["spec_error"].is_null() {
                self.spec_errors += 1;
                if self.spec_error_samples.len() < 5 {
                    self.spec_error_samples.push(r["spec_error"].clone());
                }
            }
            let diffs: Vec<String> = serde_json::from_value(r["diffs"].clone()).unwrap_or_default();
            let end_errs: Vec<String> = serde_json::from_value(r["end_errs"].clone()).unwrap_or_default();
            if !diffs.is_empty() {
                edge_mismatch = true;
                for d in &diffs {
                    *self.mismatch_fields.entry(d.clone()).or_default() += 1;
                }
                // every KIND of deviation reaches the monitor: up to 25 executions per (operation, entry point, deviating fields,
                // expected -> observed outcome), within a generous overall budget - a flood of one harmless kind must not
                // crowd out a rare violating one
                let got_cls = r["recs"].as_array().and_then(|a| a.last()).map(|x| x["c"]["cls"].as_str().unwrap_or("").to_string()).unwrap_or_default();
                let key = format!("{}|{}|{}|{}->{}", reply["op"].as_str().unwrap_or("?"), e, diffs.join(","), r["exp_c"]["cls"].as_str().unwrap_or(""), got_cls);
                let seen = self.mm_kinds.entry(key).or_default();
                *seen += 1;
                if *seen <= 25 && self.mm_written < self.cfg.max_mismatch_traces {
                    self.mm_written += 1;
                    self.mm.init(self.nh, self.maxbufs, &self.statics, &json!({"edge":edge_no,"variant":e,"diffs":diffs,"expected_o":v["o"],"expected_c":r["exp_c"]}));
                    for rec in r["recs"].as_array().unwrap() {
                        self.mm.call(&rec["c"], &rec["o"], &rec["std"]);
                    }
                    self.mm.end(&end_errs);
                }
            } else if r["sample"] == true && self.sm.histories < 800 {
                self.sm.init(self.nh, self.maxbufs, &self.statics, &json!({"edge":edge_no,"variant":e}));
                for rec in r["recs"].as_array().unwrap() {
                    self.sm.call(&rec["c"], &rec["o"], &rec["std"]);
                }
                self.sm.end(&end_errs);
                if self.samples.len() < 5 {
                    self.samples.push(json!({"path":v["path"],"expected_after":v["o"]["hd"],"result":r["exp_c"]}));
                }
            }
        }
        if edge_mismatch {
            self.mismatched_edges += 1;
        }
    }

    /// the code under test took the worker down: that is data, not a tool failure
    fn crash(&mut self, edge_no: u64, v: &Value, last_variant: &str, status: &str) {
        use std::io::Write;
        let path: Vec<Op> = serde_json::from_value(v["path"].clone()).expect("path");
        let mut vp = last_variant.split(' ');
        let (ve, vt) = (vp.next().unwrap_or("-").to_string(), vp.next().unwrap_or("0").parse::<i64>().unwrap_or(0));
        if self.crashes.len() < 50 {
            let last = path.last().unwrap();
            self.crashes.push(json!({"path":v["path"],"variant":last_variant,"status":status,"hist":self.cr.histories + 1,
                "op":last.op,"arg": if !last.f.is_empty() { "alloc-fails" } else { match last.n { -1 => "big", -2 => "toolong", -3 => "overflow", _ => "plain" } }}));
            self.cr.init(self.nh, self.maxbufs, &self.statics, &json!({"edge":edge_no,"variant":last_variant,"status":status,"crash":true}));
            for (i, op) in path.iter().enumerate() {
                let mut op = op.clone();
                if i + 1 == path.len() {
                    op.e = if ve == "-" { String::new() } else { ve.clone() };
                    op.t = vt;
                }
                let rec = json!({"ev":"pre","c":call_json(&op, &Default::default())});
                writeln!(self.cr.out, "{}", rec).unwrap();
            }
            self.cr.flush();
        }
    }

    /// processes what worker `w` has sent; blocking: wait until at least one edge is settled
    fn pump(&mut self, w: &mut Worker, blocking: bool) {
        use std::io::Write;
        let mut settled = false;
        loop {
            if w.outstanding.is_empty() {
                return;
            }
            let msg = if blocking && !settled {
                match w.rx.recv() {
                    Ok(m) => m,
                    Err(_) => None,
                }
            } else {
                match w.rx.try_recv() {
                    Ok(m) => m,
                    Err(mpsc::TryRecvError::Empty) => return,
                    Err(mpsc::TryRecvError::Disconnected) => None,
                }
            };
            match msg {
                Some(l) => {
                    if let Some(r) = l.strip_prefix("R ") {
                        let (no, _, v) = w.outstanding.pop_front().unwrap();
                        if let Ok(reply) = serde_json::from_str::<Value>(r) {
                            self.reply(no, &v, &reply);
                        }
                        w.last_variant.clear();
                        settled = true;
                    } else if let Some(vn) = l.strip_prefix("V ") {
                        w.last_variant = vn.trim().to_string();
                    } else if l == "X" {
                        w.retiring = true;
                    }
                }
                None => {
                    let status = w.child.wait().map(|s| format!("{s}")).unwrap_or_default();
                    if !w.retiring {
                        // worker died: the first unsettled edge is the one that killed it
                        let (no, _, v) = w.outstanding.pop_front().unwrap();
                        let lv = std::mem::take(&mut w.last_variant);
                        self.crash(no, &v, &lv, &status);
                    }
                    let rest: Vec<(u64, String, Value)> = w.outstanding.drain(..).collect();
                    *w = spawn_worker(self.cfg.variants, self.cfg.sample_every, &self.hdr);
                    for (no, j, v) in rest {
                        if let Some(tx) = w.tx.as_mut() {
                            let _ = writeln!(tx, "EDGE {j}");
                        }
                        w.outstanding.push_back((no, j, v));
                    }
                    if let Some(tx) = w.tx.as_mut() {
                        let _ = tx.flush();
                    }
                    settled = true;
                }
            }
        }
    }
}

pub fn run(cfg: Cfg) -> i32 {
    use std::io::Write;
    const NWORKERS: usize = 6;
    const WINDOW: usize = 24;
    let stdin = std::io::stdin();
    std::fs::create_dir_all(&cfg.out_dir).unwrap();
    let mut a = Agg {
        mm: TraceWriter::create(&format!("{}/mismatch.ndjson", cfg.out_dir)),
        sm: TraceWriter::create(&format!("{}/sample.ndjson", cfg.out_dir)),
        cr: TraceWriter::create(&format!("{}/crash.ndjson", cfg.out_dir)),
        cfg,
        nh: 0,
        maxbufs: 0,
        statics: vec![],
        hdr: None,
        edges: 0,
        executions: 0,
        steps: 0,
        mismatched_edges: 0,
        mismatch_fields: BTreeMap::new(),
        spec_errors: 0,
        spec_error_samples: vec![],
        ex_counts: BTreeMap::new(),
        op_counts: BTreeMap::new(),
        variant_counts: BTreeMap::new(),
        samples: vec![],
        wanted_samples: vec![],
        crashes: vec![],
        mm_written: 0,
        mm_kinds: BTreeMap::new(),
    };
    let mut tlc_tail: Vec<String> = vec![];
    let mut failing_lines: Vec<String> = vec![];
    let mut workers: Vec<Worker> = vec![];

    for line in stdin.lock().lines() {
        let line = match line {
            Ok(l) => l,
            Err(_) => continue,
        };
        if !line.starts_with('"') {
            if line.contains("FAILING") || !failing_lines.is_empty() && failing_lines.len() < 60 {
                failing_lines.push(line.clone());
            }
            if tlc_tail.len() > 400 {
                tlc_tail.remove(0);
            }
            tlc_tail.push(line);
            continue;
        }
        let inner: String = match serde_json::from_str(&line) {
            Ok(s) => s,
            Err(_) => continue,
        };
        if let Some(j) = inner.strip_prefix("HDR ") {
            if a.hdr.is_none() {
                let v: Value = serde_json::from_str(j).unwrap();
                a.nh = v["nh"].as_u64().unwrap() as usize;
                a.maxbufs = v["maxbufs"].as_u64().unwrap() as usize;
                a.statics = serde_json::from_value(v["statics"].clone()).unwrap();
                a.hdr = Some(j.to_string());
            }
            continue;
        }
        let Some(j) = inner.strip_prefix("EDGE ") else { continue };
        let v: Value = match serde_json::from_str(j) {
            Ok(v) => v,
            Err(e) => {
                eprintln!("unparsable EDGE line: {e}");
                return 2;
            }
        };
        a.edges += 1;
        let mut wanted = false;
        for e in v["ex"].as_array().into_iter().flatten() {
            let name = e.as_str().unwrap_or("?");
            *a.ex_counts.entry(name.to_string()).or_default() += 1;
            wanted |= a.cfg.want_ex.iter().any(|w| w == name);
        }
        if wanted && a.wanted_samples.len() < 4 && (a.edges % 97 == 1 || a.wanted_samples.is_empty()) {
            a.wanted_samples.push(json!({"path":v["path"],"exercises":v["ex"],"expected_after":v["o"]["hd"],
                "result":{"cls":v["c"]["cls"],"val":v["c"]["val"],"msg":v["c"]["msg"],"dA":v["c"]["dA"],"dR":v["c"]["dR"],"dD":v["c"]["dD"]}}));
        }
        if workers.len() < NWORKERS {
            workers.push(spawn_worker(a.cfg.variants, a.cfg.sample_every, &a.hdr));
        }
        let wi = (a.edges as usize) % workers.len();
        let w = &mut workers[wi];
        while w.outstanding.len() >= WINDOW {
            a.pump(w, true);
        }
        if w.retiring && w.outstanding.is_empty() {
            let _ = w.child.wait();
            *w = spawn_worker(a.cfg.variants, a.cfg.sample_every, &a.hdr);
        }
        if let Some(tx) = w.tx.as_mut() {
            let _ = writeln!(tx, "EDGE {j}").and_then(|_| tx.flush());
        }
        w.outstanding.push_back((a.edges, j.to_string(), v));
        a.pump(w, false);
    }
    for w in workers.iter_mut() {
        while !w.outstanding.is_empty() {
            a.pump(w, true);
        }
        w.tx = None; // closes the worker's stdin: it exits
        let _ = w.child.wait();
    }
    a.mm.flush();
    a.sm.flush();
    a.cr.flush();
    let summary = json!({
        "edges": a.edges, "executions": a.executions, "steps": a.steps,
        "mismatched_edges": a.mismatched_edges,
        "mismatch_fields": a.mismatch_fields, "mismatch_traces_written": a.mm_written, "mismatch_trace_events": a.mm.events,
        "sample_histories": a.sm.histories, "sample_events": a.sm.events,
        "spec_errors": a.spec_errors, "spec_error_samples": a.spec_error_samples,
        "exercised": a.ex_counts, "ops": a.op_counts, "variants": a.variant_counts,
        "samples": if a.wanted_samples.is_empty() { a.samples.clone() } else { a.wanted_samples.clone() },
        "crashes": a.crashes,
        "tlc_failing": failing_lines, "tlc_tail": tlc_tail,
    });
    std::fs::write(format!("{}/replay_summary.json", a.cfg.out_dir), serde_json::to_string_pretty(&summary).unwrap()).unwrap();
    println!("replay: edges={} executions={} steps={} mismatched_edges={} spec_errors={} crashes={}", a.edges, a.executions, a.steps, a.mismatched_edges, a.spec_errors, a.crashes.len());
    0
}
