#!/usr/bin/env python3
"""Regenerates /verif/MANIFEST.json from bin/profiles.py (claimed checks) and properties.jsonl."""
import json, os, subprocess, sys
V = os.path.dirname(os.path.dirname(os.path.abspath(__file__)))
sys.path.insert(0, os.path.join(V, "bin"))
import profiles
props = [json.loads(l) for l in open(os.path.join(V, "properties.jsonl"))]
hooks_commits = subprocess.run("git -C /repo log --format=%H --grep=verif-hooks", shell=True, capture_output=True, text=True).stdout.split()
checks, na = [], []
for p in props:
    pid = p["id"]
    if pid in profiles.PROFILES and pid in profiles.CLAIMS:
        c = profiles.CLAIMS[pid]
        checks.append({
            "property_id": pid,
            "quick_cmd": f"bin/check {pid} --tier quick",
            "thorough_cmd": f"bin/check {pid} --tier thorough",
            "evidence_file": f"/verif/evidence/{pid}.json",
            "replay_cmd_template": f"bin/check {pid} --replay {{path}}",
            "engine": "tlc+lsverif",
            "level_claimed": {"category": "model_checking", "text": c["text"], "design_ref": c.get("ref", "DESIGN.md 5")},
            "level_note": c["note"],
            "technique": c.get("technique", "explicit TLA+ specification checked by TLC; every explored transition replayed on the real crate; recorded executions validated by a TLC trace monitor evaluating the property predicates"),
        })
    else:
        na.append({"property_id": pid, "reason": profiles.NOT_YET.get(pid, "check not built yet (work in progress)")})
m = {
    "version": 1,
    "setup_cmd": "bin/setup",
    "hooks": {
        "guard": "verif-hooks",
        "enable": "cargo feature `verif-hooks` of lean_string; the harness crate (/verif/harness) depends on /repo with features = [\"verif-hooks\", ...]",
        "baseline_off_cmd": "cd /repo && cargo test --workspace --no-fail-fast --offline",
        "source_commits": hooks_commits,
        "add_only": True,
    },
    "engines": [
        {"name": "tlc", "path": "/verif/spec", "serves_properties": [c["property_id"] for c in checks], "kind_free_text": "TLA+ specification (LeanString.tla design model, StrModel.tla oracle, Props.tla predicates, MC*.tla bounded exhaustive scenarios, Trace.tla monitor) checked with TLC"},
        {"name": "lsverif", "path": "/verif/harness", "serves_properties": [c["property_id"] for c in checks], "kind_free_text": "Rust conformance harness: shadow heap behind the crate's hooks, replay of TLC's transitions on the real crate, random drivers that record traces for the TLC monitor"},
    ],
    "checks": checks,
    "not_applicable": na,
    "notes": "Every check is `bin/check <ID>`: it rebuilds the harness against /repo's working tree, runs TLC on the property's scenarios, replays every explored transition on the real crate and validates recorded executions with the TLC monitor. Exit 0 held / 1 VIOLATION / 2 tool error. Known findings: /verif/known_findings.json.",
}
json.dump(m, open(os.path.join(V, "MANIFEST.json"), "w"), indent=1)
print(len(checks), "checks,", len(na), "not claimed")
