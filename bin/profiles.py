"""Per-property profiles: which scenarios / drivers run in which tier, and which of the
monitor's predicates are fatal for which property (DESIGN.md section 5)."""

ACCOUNTING = ("RcOK", "BlocksOK", "EndClean")
MEMSHIM = ("double-free", "bad-layout", "bad-free", "bad-realloc", "canary", "use-after-free", "out-of-bounds",
           "realloc-after-free", "write-after-free", "leak", "shared-write")

FATAL = {
    "C01": {"always": ("TextOK", "ResultOK", "Abort"), "must_exercise": ("InlineEdit", "Growth"), "conv": ("BigOpOK", "LoopOK")},
    "C02": {"always": ("Isolation", "StaticsOK"), "shim": ("shared-write",), "heap": ("shared-write", "shared-realloc"), "conv": ("BigOpOK",), "must_exercise": ("Isolation",)},
    "C03": {"always": ("RcOK", "BlocksOK", "NoResizeShared", "EndClean", "Abort"), "shim": MEMSHIM, "heap": ("use-after-free", "double-free", "underflow", "free-while-referenced", "leak", "shim:", "abort", "shared-realloc"),
            "must_exercise": ("NoResizeShared",)},
    # the accounting predicates count against C05 from the step at which an allocation was refused on
    "C05": {"always": ("FailAtomic",), "when": {"inj": ("RcOK", "BlocksOK", "EndClean", "TextOK", "Isolation", "Utf8OK", "ResultOK", "Abort")},
            "shim": MEMSHIM, "shim_when": "inj", "must_exercise": ("FailAtomic",)},
    "C06": {"always": ("SizeSafe",), "when": {"size": ("RcOK", "BlocksOK", "EndClean", "TextOK", "Isolation", "Utf8OK", "CapOK", "WithCap", "ReservePost", "ResultOK", "Abort")}, "conv": ("BigSizeOK",),
            "shim": MEMSHIM, "shim_when": "size", "must_exercise": ("SizeSafe",)},
    "C07": {"always": ("RejectedIsNoop", "Utf8OK", "ResultOK.index", "Abort"), "must_exercise": ("RejectedIsNoop",)},
    "C08": {"always": ("CloneCheap", "Abort"), "must_exercise": ("CloneCheap",), "conv": ("BigCloneOK",)},
    "C09": {"always": ("CtorStorage", "InlineEdit", "PtrOK", "Abort"), "must_exercise": ("CtorStorage", "InlineEdit"),
            "conv": ("IntStorage", "BoolStorage", "CharStorage", "StrStorage", "FloatStorage")},
    "C17": {"always": ("TextOnly", "Abort"), "must_exercise": ("TextOnly", "TextOnlySame")},
    # C20: the niche and the representation invariants, plus C01-C03's predicates on every build configuration
    "C20": {"always": ("NicheFree", "PtrOK", "TextOK", "ResultOK", "Isolation", "StaticsOK", "RcOK", "BlocksOK", "NoResizeShared", "EndClean", "Abort"),
            "shim": MEMSHIM, "must_exercise": ("InlineEdit",),
            # every conversion record (integers at every digit-count boundary, floats, bool, char, Display) on every build: same text in all of them
            "conv": ("IntText", "IntStorage", "BoolText", "CharText", "StrText", "DispOK", "FloatOK")},
    # "the first operation that needs to write or grow moves the handle to its own storage with the correct contents":
    # text / outcome / capacity predicates count for calls whose target was a static handle
    "C10": {"always": ("StaticBorrow", "StaticPrefix", "StaticsOK", "Abort"), "when_target": {"static": ("TextOK", "ResultOK", "CapOK", "Utf8OK")},
            "must_exercise": ("StaticBorrow",), "conv": ("BigStaticOK",)},
    "C11": {"always": ("CapOK", "WithCap", "ReservePost", "NoReallocInCap", "Abort"), "must_exercise": ("WithCap", "ReservePost", "NoReallocInCap"), "conv": ("NoMoveOK", "BigOpOK")},
    "C12": {"always": ("Growth", "Abort"), "must_exercise": ("Growth",), "conv": ("GrowOK", "LoopOK")},
    "C13": {"always": ("ShrinkPost", "Abort"), "must_exercise": ("ShrinkPost",), "conv": ("ShrinkOK",)},
    "C04": {},
    "C14": {"conv": ("IntText",)},      # (ConvAbort / ConvMemory are fatal for every conv stage)
    "C15": {"conv": ("BoolText", "CharText", "StrText", "DispOK", "FloatOK"), "always": ("ResultOK.display", "TextOK.display")},
    "C16": {"codec": ("utf8", "utf8_lossy", "utf16", "utf16_lossy", "memory", "abort"), "always": ("TextOK.decode", "ResultOK.decode", "Utf8OK")},
    "C19": {"codec": ("de_*", "abort"), "conv": ("SerOK", "ArbOK")},
    "C18": {"always": ("CallbackPanicOK", "Abort"), "when": {"cbpanic": ("RcOK", "BlocksOK", "EndClean", "TextOK", "Isolation", "Abort")},
            "shim": MEMSHIM, "shim_when": "cbpanic", "must_exercise": ("CallbackPanicOK",)},
}

ASSUMPTIONS = [
    "64-bit little-endian target; MaxInline = 16, header = 16 bytes",
    "allocator model: the shim refuses requests above 2^30 bytes and exactly the injected k-th request of a call; realloc always moves",
    "bounded: pool size, depth and argument alphabets as listed under coverage.scenarios (TLC .cfg files in /verif/spec)",
    "entry points listed as variants of one action in harness/src/pool.rs::variants are the same action of the specification",
]

def mc(cfg, **kw):
    d = {"kind": "mc", "cfg": cfg}
    d.update(kw)
    return d

def drive(name, histories, ops, mode="mixed", files=8, heap=False):
    return {"kind": "drive", "name": name, "histories": histories, "ops": ops, "mode": mode, "files": files, "heap": heap}

CORE3, CORE4, CORE5 = mc("MC_Core_d3"), mc("MC_Core_d4"), mc("MC_Core_d5")
SEED1, SEED2, SEED3 = mc("MC_Seeded_d1"), mc("MC_Seeded_d2"), mc("MC_Seeded_d3")
FAIL2, FAILP, SIZES2, IDX1 = mc("MC_Fail_d2"), mc("MC_Fail2_d2"), mc("MC_Sizes_d2"), mc("MC_Idx_d1")
FINAL2, SHRINK2, PAIRS2, CORE3H = mc("MC_Final_d2"), mc("MC_Shrink_d2"), mc("MC_Pairs_d2"), mc("MC_Core3_d4")
SEED3H = mc("MC_Seeded3_d2")     # three handles, all ops incl. decoders and compare, seeds with three holders of one buffer
CONV, PROOF, SCALE = {"kind": "conv"}, {"kind": "proof"}, {"kind": "scale"}
# TLC simulation mode: random walks of depth 30 over the widest alphabet (3 handles, failures, panics, decoders);
# TLC evaluates every enabled transition of every visited state, and every one of those is replayed
SIM = mc("MC_Sim", sim=(6, 20), variants=False, workers=8, timeout=480)     # bounded by the clock: a random walk cut short is still a random walk

def conc(name, threads, configs, **kw):
    d = {"kind": "conc", "name": name, "threads": threads, "configs": configs}
    d.update(kw)
    return d

def dq(mode, heap=False): return drive("q-" + mode, 10, 120, mode, 8, heap)      # ~20 k records
def dt(mode, heap=False): return drive("t-" + mode, 40, 250, mode, 16, heap)     # ~320 k records
# pipeline E: the repository's own tests (one process per test) under the hooks, every allocator / reference-count /
# buffer event validated against the buffer protocol spec/Heap.tla; drives with heap=True feed the same monitor
SUITEQ, SUITET = {"kind": "heap", "cases": 32}, {"kind": "heap", "cases": 1024}

def matrix(stages):
    return {"kind": "matrix", "configs": ["default", "nodefault", "all"], "profiles": ["release", "debug"], "stages": stages}

PROFILES = {
    "C01": {"quick": [CORE4, SEED2, SIZES2, SCALE, dq("mixed")], "thorough": [CORE5, SEED3, CORE3H, FINAL2, SIM, SCALE, dt("mixed"), dt("all")]},
    "C02": {"quick": [CORE3, SEED2, FAIL2, SIZES2, SCALE, dq("all", True), SUITEQ], "thorough": [CORE4, SEED3, CORE3H, SEED3H, FAILP, SIZES2, SIM, PROOF, SCALE, dt("all", True), SUITET]},
    "C03": {"quick": [CORE3, SEED2, FAIL2, PROOF, dq("all", True), SUITEQ], "thorough": [CORE4, SEED3, CORE3H, SEED3H, FAILP, SIZES2, SIM, PROOF, dt("all", True), SUITET]},
    "C04": {"quick": [conc("own2", "{1,2}", "cQuick2", sample_every=40), conc("lend3", "{1,2,3}", "cLend2", sample_every=40), conc("from2", "{1,2}", "cFrom2", sample_every=40),
                      conc("own2", "{1,2}", "cQuick2", sample_every=40, profile="debug", gate="post")],
            "thorough": [conc("own2", "{1,2}", "cQuick2", sample_every=10), conc("lend3", "{1,2,3}", "cLend2", sample_every=10), conc("from2", "{1,2}", "cFrom2", sample_every=10),
                         conc("lendfrom", "{1,2,3}", "cLendFrom", sample_every=10), conc("own3", "{1,2,3}", "cOwn3", sample_every=40), conc("deep2", "{1,2}", "cDeep2", sample_every=200, workers=14),
                         conc("own2", "{1,2}", "cQuick2", sample_every=10, profile="debug", gate="post"), conc("lend3", "{1,2,3}", "cLend2", sample_every=10, profile="debug", gate="post")]},
    "C05": {"quick": [FAIL2, dq("fail")], "thorough": [FAILP, SEED2, dt("fail")]},
    "C06": {"quick": [SIZES2, SCALE, dq("sizes")], "thorough": [SIZES2, SHRINK2, SCALE, dt("sizes")]},
    "C07": {"quick": [IDX1, CORE3, dq("mixed")], "thorough": [IDX1, CORE4, SEED2, dt("mixed")]},
    "C08": {"quick": [SEED2, PAIRS2, SCALE, dq("mixed")], "thorough": [SEED3, CORE4, CORE3H, SCALE, dt("mixed")]},
    "C09": {"quick": [SEED2, FINAL2, mc("MC_Decode_d2"), CONV, dq("mixed")], "thorough": [SEED3, CORE4, FINAL2, mc("MC_Decode_d2"), CONV, dt("mixed")]},
    "C10": {"quick": [SEED2, FAIL2, SCALE, dq("mixed")], "thorough": [SEED3, CORE4, FAIL2, SCALE, dt("mixed"), dt("fail")]},
    "C11": {"quick": [SEED2, CORE3, FAIL2, SCALE, PROOF, dq("all")], "thorough": [SEED3, CORE4, FAIL2, SIZES2, SHRINK2, SCALE, PROOF, dt("all")]},
    "C12": {"quick": [SEED2, CORE3, FAIL2, SCALE, dq("all")], "thorough": [SEED3, CORE4, FAIL2, SIZES2, SHRINK2, SCALE, dt("all")]},
    "C13": {"quick": [SEED2, SHRINK2, FAIL2, SCALE, dq("all")], "thorough": [SEED3, CORE4, SHRINK2, FAIL2, SIZES2, SCALE, dt("all")]},
    "C14": {"quick": [CONV, {"kind": "conv", "profile": "debug", "files": 2}], "thorough": [CONV, {"kind": "conv", "profile": "debug", "files": 2}, {"kind": "sweep", "what": "u32"}, {"kind": "sweep", "what": "i32"}]},
    "C15": {"quick": [CONV, SEED1], "thorough": [CONV, SEED2, {"kind": "sweep", "what": "f32"}]},
    "C16": {"quick": [{"kind": "codec", "cfg": "MC_Codec_u8_q"}, {"kind": "codec", "cfg": "MC_Codec_u16_q"}, {"kind": "codec", "cfg": "MC_Codec_u8_all"}, {"kind": "codec", "cfg": "MC_Codec_u16_all"},
                      mc("MC_Decode_d2"), dq("mixed")],
            "thorough": [{"kind": "codec", "cfg": "MC_Codec_u8_t"}, {"kind": "codec", "cfg": "MC_Codec_u16_t"}, {"kind": "codec", "cfg": "MC_Codec_u8_all"}, {"kind": "codec", "cfg": "MC_Codec_u16_all"},
                         mc("MC_Decode_d2"), dt("mixed")]},
    "C17": {"quick": [PAIRS2, dq("mixed")], "thorough": [PAIRS2, SEED2, dt("mixed")]},
    "C18": {"quick": [SEED2, dq("callbacks")], "thorough": [SEED3, FAIL2, dt("callbacks")]},
    "C19": {"quick": [{"kind": "codec", "cfg": "MC_Codec_u8_q"}, {"kind": "codec", "cfg": "MC_Codec_u8_all"}, CONV], "thorough": [{"kind": "codec", "cfg": "MC_Codec_u8_t"}, CONV]},
    "C20": {"quick": [FINAL2, matrix([CORE3, SEED1, drive("q-mixed", 4, 100, "all", 4), {"kind": "conv", "files": 2}])],
            "thorough": [FINAL2, matrix([CORE3, SEED2, drive("t-mixed", 10, 200, "all", 8), CONV])]},
}

_SEQ_NOTE = ("Trusted: TLC, the Rust harness (shadow heap, observation code), the add-only hooks. Bounded: pool of 2-3 handles, depth and "
             "alphabets of the scenario .cfg files; the code is bound to the model by replaying every explored transition (exact match of the "
             "observable projection) and by monitor-validated traces, not by proof.")
CLAIMS = {
    "C01": {"text": "TLC explores every history of the op alphabet to the depth bound on a byte-level design model and checks Text = String-oracle text and every returned value on each transition; each transition is replayed on the real crate and on std String under every entry-point variant.", "note": _SEQ_NOTE, "ref": "DESIGN.md 5 C01"},
    "C02": {"text": "Isolation (text, length, pointer of every non-target handle unchanged) is checked by TLC on every transition from seeds with shared/truncated-sibling/static-shared buffers; every transition replayed on the crate; the shim flags writes into a buffer whose count is above 1; the buffer protocol Heap.tla (a block with count > 1 is never written or resized) is validated by TLC on the event logs of the random drives and of the repository's own test-suite run under the hooks.", "note": _SEQ_NOTE, "ref": "DESIGN.md 5 C02"},
    "C03": {"text": "Reference count = live handles, no dangling/leaked block, exact layouts, no resize under a reader, clean end of history: invariants of the design model (TLC) and, on the replayed code, facts observed by the shadow heap (guards, poison, quarantine) including failing-allocation histories; the buffer protocol Heap.tla (count never underflows, free only at count 0 and once, no access after free, nothing live at the end) is validated by TLC on the event logs of the random drives and of the repository's own test-suite run under the hooks.", "note": _SEQ_NOTE, "ref": "DESIGN.md 5 C03"},
    "C05": {"text": "Fault enumeration inside the model: for every state of the seeded graph and every call, each allocator request the call issues is made to fail in turn; TLC checks outcome class, unchanged texts and accounting; every such transition is replayed with the shim failing exactly that request.", "note": _SEQ_NOTE, "ref": "DESIGN.md 5 C05"},
    "C06": {"text": "Size arguments are explored by class (small values around every boundary plus the three symbolic classes above the allocator limit / above 2^56-1 / overflowing usize), each materialised as several concrete values on the code; TLC checks Err => nothing changed, Ok => postcondition.", "note": _SEQ_NOTE, "ref": "DESIGN.md 5 C06"},
    "C07": {"text": "All byte indices 0..len+2 on texts mixing every character width in every storage state: TLC checks the panic set against the String oracle and that a rejected call changes nothing observable; replayed on the crate and on String.", "note": _SEQ_NOTE, "ref": "DESIGN.md 5 C07"},
    "C08": {"text": "Every clone-family transition of the seeded graphs: no allocator request, same pointer for heap/static sources, equal text, continuation states explore dropping either side.", "note": _SEQ_NOTE, "ref": "DESIGN.md 5 C08"},
    "C09": {"text": "Constructor storage (<=16 bytes: no allocation, not heap; longer: one allocation, capacity = length) and allocation-free inline edits checked on every transition of the seeded/core graphs and replayed through every construction route.", "note": _SEQ_NOTE, "ref": "DESIGN.md 5 C09"},
    "C10": {"text": "Static handles: no allocation and same pointer for from_static_str/clone/pop/truncate/clear while longer than 16, always a prefix of the static text, static bytes compared with pristine copies after every replayed call.", "note": _SEQ_NOTE, "ref": "DESIGN.md 5 C10"},
    "C11": {"text": "cap >= len invariant, with_capacity/reserve postconditions and no-reallocation-within-capacity checked by TLC on every transition and on the replayed code (the shim's realloc always moves, so a hidden reallocation is visible).", "note": _SEQ_NOTE, "ref": "DESIGN.md 5 C11"},
    "C12": {"text": "Every growth event of the explored graphs (inline->heap, static->heap, shared copy, in-place realloc) satisfies len+len/2 <= cap' <= max(len+len/2, need).", "note": _SEQ_NOTE, "ref": "DESIGN.md 5 C12"},
    "C13": {"text": "shrink_to/shrink_to_fit postconditions (texts unchanged, never grows, >= len, >= min(m,cap), exact landing) on heap unique/shared/over-allocated, inline and static targets.", "note": _SEQ_NOTE, "ref": "DESIGN.md 5 C13"},
    "C18": {"text": "Every panic position of retain predicates and extend/collect iterators in every seeded storage state: text equals the String oracle's after the same panic, others untouched, nothing leaked (shadow heap).", "note": _SEQ_NOTE, "ref": "DESIGN.md 5 C18"},
}
NOT_YET = {}

CLAIMS["C04"] = {
    "text": "TLC explores every interleaving and every C11-permitted stale load of 2-3 thread programs (clone/read/drop/push/reserve/truncate/clear/shrink, owned and borrowed handles) on a micro-step model with a vector-clock release/acquire memory model, instantiated with the micro-step shape and the memory orderings OBSERVED from the code; every finished execution's schedule is replayed on gated real threads under the shadow heap, each thread's results are compared with its sequential String shadow, and the recorded event logs are judged by a shape-free happens-before monitor (TLC trace validation).",
    "note": "Trusted: TLC, the memory-model operators of Conc.tla (release/acquire fragment with release sequences and fences; no consume, no SC fences), the hooks reporting every atomic with its ordering, the gating harness. Real executions are sequentially consistent: weak-memory behaviours are decided in the model only. Bounded: 2 threads x <=2 ops (+drops), 3 threads with a lent handle, 3 threads x 1 op in the thorough tier.",
    "ref": "DESIGN.md 3.5, 5 C04",
    "technique": "explicit TLA+ micro-step specification with a vector-clock C11 model checked by TLC; TLC-generated schedules replayed on gated real threads; happens-before trace validation of the recorded events",
}

_CONV_NOTE = ("Trusted: TLC, the oracle modules (Codec.tla written from the Unicode standard's well-formed-sequence table and maximal-subpart rule; Convert.tla's long "
              "division), the harness. The oracle is cross-checked against std on every input (a disagreement is a tool error, not a verdict). Bounded: sequence "
              "length and class alphabets of MC_Codec_*.cfg; value families of harness/src/convert.rs (exhaustive for 8-bit, 16-bit in the thorough tier).")
CLAIMS["C14"] = {"text": "Every recorded to_lean_string() of an integer (24 types: all powers of ten and two +-3, extremes, unrolled-writer branch points, random values of every digit count; exhaustive for 8-bit types, 16-bit in the thorough tier) is validated by a TLC monitor that recomputes the decimal text by long division on base-2^16 limbs. The 2^32 sweeps of the thorough tier run outside TLC and are reported as such.", "note": _CONV_NOTE, "ref": "DESIGN.md 5 C14",
                 "technique": "TLA+ decimal oracle (Convert.tla) validating recorded conversions by TLC trace validation"}
CLAIMS["C15"] = {"text": "bool/char/String/LeanString/user Display types writing 0-3 pieces with a failure after every piece: the TLC monitor states the text (UTF-8 encoding, concatenation, Err(Fmt) and no string on failure); floats: class texts, alphabet, sign, and the harness-evaluated parse round trip on every exponent, mantissa extremes and random patterns (all 2^32 f32 patterns in the thorough tier, outside TLC).", "note": _CONV_NOTE, "ref": "DESIGN.md 5 C15",
                 "technique": "TLA+ conversion monitor (Convert.tla) validating recorded conversions by TLC trace validation"}
CLAIMS["C16"] = {"text": "TLC enumerates ALL byte sequences up to length 4 (quick) / 5 (thorough) over a 17-symbol alphabet with a representative of every UTF-8 byte class and all u16 sequences up to length 4 / 6 over surrogate-boundary classes, stating validity and the lossy text per the Unicode standard; every sequence is replayed bare and padded across the inline limit on from_utf8, from_utf8_lossy, from_utf16, from_utf16_lossy and on std's counterparts.", "note": _CONV_NOTE, "ref": "DESIGN.md 5 C16",
                 "technique": "TLA+ decoder specification (Codec.tla) exhaustively enumerated by TLC; every enumerated input replayed on the crate"}
CLAIMS["C19"] = {"text": "Serialize: a recording Serializer sees exactly one serialize_str(text), identical to String's; Deserialize: every enumerated byte sequence through visit_bytes/borrowed_bytes/byte_buf (Ok(text) iff well-formed per Codec.tla) and every well-formed one through visit_str/borrowed_str/string; Arbitrary: same text / same error as <&str>::arbitrary on all inputs up to 3 bytes over 7 classes plus random ones, both entry points.", "note": _CONV_NOTE, "ref": "DESIGN.md 5 C19",
                 "technique": "TLA+ decoder specification enumerated by TLC and replayed through the serde visitors; TLC monitor over recorded serializer calls and arbitrary results"}

CLAIMS["C17"] = {"text": "TLC explores pairs/triples of handles holding the same text behind different representations (inline fresh vs after pop, heap exact vs over-allocated vs truncated, static vs heap vs inline, shared vs unique, 16 bytes inline vs heap) and every pair of live handles of the random drives; the `compare` observation (== in 14 type/order combinations, cmp/partial_cmp/<, hash vs the &str's hash, Display/Debug/padding, AsRef/Borrow/Deref/String::from, HashMap and BTreeMap lookups by &str) must equal what the oracle texts say.", "note": _SEQ_NOTE, "ref": "DESIGN.md 5 C17"}
CLAIMS["C20"] = {"text": "Niche: the last raw byte of every handle after every replayed call is below 0xD2 and consistent with its kind, Some(handle).is_some() for every live handle, over a scenario with all 192 possible final bytes of a 16-byte inline text; configurations: the replay corpus (core depth 3, seeded depth 1-2, random drives) with the predicates of C01-C03 on harness builds for {default, no-default-features, all features} x {release, debug}; the crate builds with --no-default-features.", "note": _SEQ_NOTE + " A true no_std link test needs a target that is not installed.", "ref": "DESIGN.md 5 C20"}
