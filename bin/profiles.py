"""Per-property profiles: which scenarios / drivers run in which tier, and which of the
monitor's predicates are fatal for which property (DESIGN.md section 5)."""

ACCOUNTING = ("RcOK", "BlocksOK", "EndClean")
MEMSHIM = ("double-free", "bad-layout", "bad-free", "bad-realloc", "canary", "use-after-free", "out-of-bounds",
           "realloc-after-free", "write-after-free", "leak", "shared-write")

FATAL = {
    "C01": {"always": ("TextOK", "ResultOK"), "must_exercise": ("InlineEdit", "Growth")},
    "C02": {"always": ("Isolation", "StaticsOK"), "shim": ("shared-write",), "must_exercise": ("Isolation",)},
    "C03": {"always": ("RcOK", "BlocksOK", "NoResizeShared", "EndClean"), "shim": MEMSHIM, "must_exercise": ("NoResizeShared",)},
    # the accounting predicates count against C05 from the step at which an allocation was refused on
    "C05": {"always": ("FailAtomic",), "when": {"inj": ("RcOK", "BlocksOK", "EndClean", "TextOK", "Isolation", "Utf8OK", "ResultOK")},
            "shim": MEMSHIM, "shim_when": "inj", "must_exercise": ("FailAtomic",)},
    "C06": {"always": ("SizeSafe",), "when": {"size": ("RcOK", "BlocksOK", "EndClean", "TextOK", "Isolation", "Utf8OK", "CapOK", "WithCap", "ReservePost", "ResultOK")},
            "shim": MEMSHIM, "shim_when": "size", "must_exercise": ("SizeSafe",)},
    "C07": {"always": ("RejectedIsNoop", "Utf8OK", "ResultOK.index"), "must_exercise": ("RejectedIsNoop",)},
    "C08": {"always": ("CloneCheap",), "must_exercise": ("CloneCheap",)},
    "C09": {"always": ("CtorStorage", "InlineEdit", "PtrOK"), "must_exercise": ("CtorStorage", "InlineEdit")},
    "C10": {"always": ("StaticBorrow", "StaticPrefix", "StaticsOK"), "must_exercise": ("StaticBorrow",)},
    "C11": {"always": ("CapOK", "WithCap", "ReservePost", "NoReallocInCap"), "must_exercise": ("WithCap", "ReservePost", "NoReallocInCap")},
    "C12": {"always": ("Growth",), "must_exercise": ("Growth",)},
    "C13": {"always": ("ShrinkPost",), "must_exercise": ("ShrinkPost",)},
    "C18": {"always": ("CallbackPanicOK",), "when": {"cbpanic": ("RcOK", "BlocksOK", "EndClean", "TextOK", "Isolation")},
            "shim": MEMSHIM, "shim_when": "cbpanic", "must_exercise": ("CallbackPanicOK",)},
}

ASSUMPTIONS = [
    "64-bit little-endian target; MaxInline = 16, header = 16 bytes",
    "allocator model: the shim refuses requests above 2^30 bytes and exactly the injected k-th request of a call; realloc always moves",
    "bounded: pool size, depth and argument alphabets as listed under coverage.scenarios (TLC .cfg files in /verif/spec)",
    "entry points listed as variants of one action in harness/src/pool.rs::variants are the same action of the specification",
]

def mc(cfg, **kw):
    d = {"kind": "mc", "cfg": cfg}
    d.update(kw)
    return d

def drive(name, histories, ops, mode="mixed", files=8):
    return {"kind": "drive", "name": name, "histories": histories, "ops": ops, "mode": mode, "files": files}

CORE3, CORE4 = mc("MC_Core_d3"), mc("MC_Core_d4")
SEED2, FAIL2, SIZES2, IDX1 = mc("MC_Seeded_d2"), mc("MC_Fail_d2"), mc("MC_Sizes_d2"), mc("MC_Idx_d1")

PROFILES = {
    "C01": {"quick": [CORE4, SEED2], "thorough": [CORE4, SEED2]},
    "C02": {"quick": [CORE3, SEED2], "thorough": [CORE4, SEED2]},
    "C03": {"quick": [CORE3, SEED2, FAIL2], "thorough": [CORE4, SEED2, FAIL2, SIZES2]},
    "C05": {"quick": [FAIL2], "thorough": [FAIL2]},
    "C06": {"quick": [SIZES2], "thorough": [SIZES2]},
    "C07": {"quick": [IDX1, CORE3], "thorough": [IDX1, CORE4]},
    "C08": {"quick": [SEED2], "thorough": [SEED2, CORE4]},
    "C09": {"quick": [SEED2, CORE3], "thorough": [SEED2, CORE4]},
    "C10": {"quick": [SEED2], "thorough": [SEED2, CORE4]},
    "C11": {"quick": [SEED2, CORE3], "thorough": [SEED2, CORE4]},
    "C12": {"quick": [SEED2, CORE3], "thorough": [SEED2, CORE4]},
    "C13": {"quick": [SEED2, CORE3], "thorough": [SEED2, CORE4]},
    "C18": {"quick": [SEED2], "thorough": [SEED2]},
}
