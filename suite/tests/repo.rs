//! The repository's own tests, run under the recording allocator / hook layer of the harness.
//! Run with `--test-threads=1`: the event log is then the program order of one thread at a time.
#![allow(dead_code, unused_imports, clippy::all)]

#[path = "../../harness/src/gate.rs"]
mod gate;
#[path = "../../harness/src/shim.rs"]
mod shim;

mod handmade {
    include!(concat!(env!("OUT_DIR"), "/handmade.rs"));
}
mod alloc_string {
    include!(concat!(env!("OUT_DIR"), "/alloc_string.rs"));
}
mod property {
    include!(concat!(env!("OUT_DIR"), "/property.rs"));
}
mod serde_tests {
    include!(concat!(env!("OUT_DIR"), "/serde.rs"));
}
mod arbitrary_tests {
    include!(concat!(env!("OUT_DIR"), "/arbitrary.rs"));
}

#[allow(unused)]
mod doctests {
    include!(concat!(env!("OUT_DIR"), "/doctests.rs"));
}

unsafe extern "C" {
    fn atexit(cb: extern "C" fn()) -> i32;
}

extern "C" fn start() {
    shim::install();
    shim::heap_log_start();
    shim::set_purge_at(64);
    unsafe { atexit(dump) };
}

/// Writes the event log (one JSON object per line) and the allocator layer's own end-of-run
/// findings to $LS_SUITE_TRACE.
extern "C" fn dump() {
    use std::io::Write;
    let Ok(path) = std::env::var("LS_SUITE_TRACE") else { return };
    let evs = shim::heap_log_take();
    let errs = shim::take_errors();
    let live = shim::live_blocks();
    let mut f = std::io::BufWriter::new(std::fs::File::create(&path).unwrap());
    writeln!(f, "{}", serde_json::json!({"ev":"init","name":std::env::var("LS_SUITE_NAME").unwrap_or_default()})).unwrap();
    for e in &evs {
        writeln!(f, "{}", shim::heap_record(e)).unwrap();
    }
    writeln!(f, "{}", serde_json::json!({"ev":"end","live":live.iter().map(|(id, _)| *id).collect::<Vec<_>>(),"shim":errs})).unwrap();
}

#[used]
#[unsafe(link_section = ".init_array")]
static START: extern "C" fn() = start;
