// Copies the repository's integration tests next to the build output so that tests/repo.rs can
// include them as modules; crate-level `#![cfg(feature = ..)]` lines are dropped (the features
// are always on here). The repository is the `path` of the lean_string dependency.
use std::{env, fs, path::PathBuf};
fn main() {
    let toml = fs::read_to_string("Cargo.toml").unwrap();
    let repo = toml
        .lines()
        .find(|l| l.starts_with("lean_string"))
        .and_then(|l| l.split("path = \"").nth(1))
        .and_then(|r| r.split('"').next())
        .expect("lean_string path")
        .to_string();
    let out = PathBuf::from(env::var("OUT_DIR").unwrap());
    for name in ["handmade", "alloc_string", "property", "serde", "arbitrary"] {
        let src = format!("{repo}/tests/{name}.rs");
        println!("cargo:rerun-if-changed={src}");
        let text = fs::read_to_string(&src).unwrap_or_default();
        let kept: Vec<&str> = text.lines().filter(|l| !l.trim_start().starts_with("#![")).collect();
        fs::write(out.join(format!("{name}.rs")), kept.join("\n")).unwrap();
    }
    // the documentation examples (doctests) of src/lib.rs and of the README become ordinary tests
    let mut doc = String::new();
    let mut n = 0;
    for (file, prefix) in [("src/lib.rs", "///"), ("README.md", "")] {
        let src = format!("{repo}/{file}");
        println!("cargo:rerun-if-changed={src}");
        let text = fs::read_to_string(&src).unwrap_or_default();
        let mut body: Option<(String, bool)> = None;
        for line in text.lines() {
            let t = line.trim_start();
            if !prefix.is_empty() && !t.starts_with(prefix) {
                body = None;
                continue;
            }
            let t = t.strip_prefix(prefix).unwrap_or(t);
            let t = t.strip_prefix(' ').unwrap_or(t);
            if let Some(fence) = t.trim().strip_prefix("```") {
                match body.take() {
                    Some((code, should_panic)) => {
                        n += 1;
                        let tag = file.replace(['/', '.'], "_");
                        doc += &format!("#[test]\n{}fn doc_{tag}_{n}() {{\n{code}}}\n", if should_panic { "#[should_panic]\n" } else { "" });
                    }
                    None => {
                        let f = fence.trim();
                        if f.is_empty() || f == "rust" || f == "should_panic" {
                            body = Some((String::new(), f == "should_panic"));
                        }
                    }
                }
            } else if let Some((code, _)) = body.as_mut() {
                let l = if t == "#" { "" } else { t.strip_prefix("# ").unwrap_or(t) };
                code.push_str(l);
                code.push('\n');
            }
        }
    }
    fs::write(out.join("doctests.rs"), doc).unwrap();
    println!("cargo:rerun-if-changed=Cargo.toml");
}
