// Copies the repository's integration tests next to the build output so that tests/repo.rs can
// include them as modules; crate-level `#![cfg(feature = ..)]` lines are dropped (the features
// are always on here). The repository is the `path` of the lean_string dependency.
use std::{env, fs, path::PathBuf};
fn main() {
    let toml = fs::read_to_string("Cargo.toml").unwrap();
    let repo = toml
        .lines()
        .find(|l| l.starts_with("lean_string"))
        .and_then(|l| l.split("path = \"").nth(1))
        .and_then(|r| r.split('"').next())
        .expect("lean_string path")
        .to_string();
    let out = PathBuf::from(env::var("OUT_DIR").unwrap());
    for name in ["handmade", "alloc_string", "property", "serde", "arbitrary"] {
        let src = format!("{repo}/tests/{name}.rs");
        println!("cargo:rerun-if-changed={src}");
        let text = fs::read_to_string(&src).unwrap_or_default();
        let kept: Vec<&str> = text.lines().filter(|l| !l.trim_start().starts_with("#![")).collect();
        fs::write(out.join(format!("{name}.rs")), kept.join("\n")).unwrap();
    }
    println!("cargo:rerun-if-changed=Cargo.toml");
}
