//! Nothing here: the crate exists for tests/repo.rs.
