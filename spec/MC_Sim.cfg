CONSTANTS
  NH = 3
  MaxBufs = 4
  Statics <- cStatics2
  OpKinds <- cOpsSim
  StrArgs <- cStrS5
  CharArgs <- cCharsAll
  Caps <- cCapsSim
  IdxMode = "few"
  RetainPats <- cRetainP
  ItemSeqs <- cItems2
  Hints = {0, 2, 5, 20}
  RawArgs <- cRaw
  U16Args <- cU16
  FailMode = 1
  PanicMode = 1
  Seeds <- cSeedsEmpty
  MaxSteps = 30
SPECIFICATION Spec
INVARIANTS ModelTypeOK NoUninitRead OwnInv
PROPERTIES AllSteps Refines
ACTION_CONSTRAINT Emit
CHECK_DEADLOCK FALSE
