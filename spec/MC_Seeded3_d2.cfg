CONSTANTS
  NH = 3
  MaxBufs = 4
  Statics <- cStatics3
  OpKinds <- cOpsSim
  StrArgs <- cStrS3
  CharArgs <- cChars
  Caps = {0, 1, 17, 30}
  IdxMode = "few"
  RetainPats <- cRetainP
  ItemSeqs <- cItems2
  Hints = {0, 2, 5, 20}
  RawArgs <- cRawNone
  U16Args <- cU16None
  FailMode = 0
  PanicMode = 1
  Seeds <- cSeeds3
  MaxSteps = 2
SPECIFICATION Spec
VIEW View
INVARIANTS ModelTypeOK NoUninitRead OwnInv
PROPERTIES AllSteps Refines
ACTION_CONSTRAINT Emit
CHECK_DEADLOCK FALSE
