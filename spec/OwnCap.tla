---------------------------- MODULE OwnCap ----------------------------
(* The ownership protocol of Own.tla extended with handle-local lengths and
   buffer capacities as UNBOUNDED integers (no bytes).  Inductive invariant,
   discharged with Apalache for a pool of 3 handles x 3 buffers and ALL
   lengths / capacities / requested amounts:
     - the count equals the number of holders, a buffer is live iff held,
     - capacity is a promise (C11): every holder's length fits its buffer,
     - heap buffers are only ever written by a sole owner (ghost `writes`),
     - inline handles hold at most 16 bytes.
   Actions follow src/repr.rs: reserve-then-write for appends (in place when
   unique and it fits, realloc with the amortised size when unique and it does
   not, copy-out when shared), handle-local truncation, clear, shrink_to,
   clone / clone_from / drop.                                               *)
EXTENDS Integers, FiniteSets

CONSTANTS
  \* @type: Set(Int);
  H,
  \* @type: Set(Int);
  B

VARIABLES
  \* @type: Int -> Int;
  ref,      \* handle -> buffer id; 0 = inline (or static / dead: no heap buffer)
  \* @type: Int -> Int;
  len,      \* handle-local length
  \* @type: Int -> Int;
  rc,
  \* @type: Int -> Bool;
  live,
  \* @type: Int -> Int;
  cap,      \* buffer -> capacity
  \* @type: Int -> Int;
  writes    \* buffer -> in-place writes made while it had more than one holder (must stay 0)

ConstInit == H = {1, 2, 3} /\ B = {1, 2, 3}
MaxInline == 16
Holders(b) == {h \in H : ref[h] = b}
Max2(a, b) == IF a >= b THEN a ELSE b
Amort(l, n) == Max2((l * 3) \div 2, l + n)

Init == /\ ref = [h \in H |-> 0] /\ len = [h \in H |-> 0]
        /\ rc = [b \in B |-> 0] /\ live = [b \in B |-> FALSE] /\ cap = [b \in B |-> 0]
        /\ writes = [b \in B |-> 0]

RelRc(h)   == IF ref[h] = 0 THEN rc ELSE [rc EXCEPT ![ref[h]] = @ - 1]
RelLive(h) == IF ref[h] = 0 THEN live ELSE [live EXCEPT ![ref[h]] = (rc[ref[h]] > 1)]

\* a handle moves to a fresh buffer of capacity c holding l bytes (constructor, copy-out, growth out of inline)
Fresh(h, l, c) == \E b \in B :
   /\ ~live[b] /\ l <= c /\ l >= 0
   /\ rc' = [RelRc(h) EXCEPT ![b] = 1]
   /\ live' = [RelLive(h) EXCEPT ![b] = TRUE]
   /\ cap' = [cap EXCEPT ![b] = c]
   /\ ref' = [ref EXCEPT ![h] = b] /\ len' = [len EXCEPT ![h] = l]
   /\ UNCHANGED writes

\* append / insert of n > 0 bytes: Repr::reserve(n), then the write, then set_len
AppendTo(h) == \E n \in Int :
   /\ n > 0
   /\ IF ref[h] = 0
      THEN IF len[h] + n <= MaxInline
           THEN len' = [len EXCEPT ![h] = @ + n] /\ UNCHANGED <<ref, rc, live, cap, writes>>
           ELSE Fresh(h, len[h] + n, Amort(len[h], n))
      ELSE LET b == ref[h] IN
           IF rc[b] = 1
           THEN /\ cap' = [cap EXCEPT ![b] = IF @ >= len[h] + n THEN @ ELSE Amort(len[h], n)]   \* realloc keeps the buffer id
                /\ len' = [len EXCEPT ![h] = @ + n]
                /\ writes' = [writes EXCEPT ![b] = IF Cardinality(Holders(b)) > 1 THEN @ + 1 ELSE @]
                /\ UNCHANGED <<ref, rc, live>>
           ELSE Fresh(h, len[h] + n, Amort(len[h], n))

\* remove / retain: ensure_modifiable (copy-out with capacity = length when shared), then shrink the length
Remove(h) == \E m \in Int :
   /\ m >= 0 /\ m < len[h]
   /\ IF ref[h] = 0 \/ rc[ref[h]] = 1
      THEN /\ len' = [len EXCEPT ![h] = m]
           /\ writes' = IF ref[h] = 0 THEN writes ELSE [writes EXCEPT ![ref[h]] = IF Cardinality(Holders(ref[h])) > 1 THEN @ + 1 ELSE @]
           /\ UNCHANGED <<ref, rc, live, cap>>
      ELSE Fresh(h, m, len[h])

\* truncate / pop: handle-local, never touches the buffer
Truncate(h) == \E m \in Int :
   /\ m >= 0 /\ m <= len[h]
   /\ len' = [len EXCEPT ![h] = m] /\ UNCHANGED <<ref, rc, live, cap, writes>>

\* clear: unique keeps the buffer, shared goes inline
Clear(h) ==
   IF ref[h] # 0 /\ rc[ref[h]] > 1
   THEN /\ rc' = RelRc(h) /\ live' = RelLive(h) /\ ref' = [ref EXCEPT ![h] = 0] /\ len' = [len EXCEPT ![h] = 0]
        /\ UNCHANGED <<cap, writes>>
   ELSE len' = [len EXCEPT ![h] = 0] /\ UNCHANGED <<ref, rc, live, cap, writes>>

\* shrink_to(m)
Shrink(h) == \E m \in Int :
   /\ m >= 0 /\ ref[h] # 0
   /\ LET b == ref[h]  nc == Max2(len[h], m) IN
      IF nc <= MaxInline
      THEN /\ rc' = RelRc(h) /\ live' = RelLive(h) /\ ref' = [ref EXCEPT ![h] = 0] /\ UNCHANGED <<len, cap, writes>>
      ELSE IF nc >= cap[b] THEN UNCHANGED <<ref, len, rc, live, cap, writes>>
      ELSE IF rc[b] = 1 THEN cap' = [cap EXCEPT ![b] = nc] /\ UNCHANGED <<ref, len, rc, live, writes>>
      ELSE Fresh(h, len[h], nc)

\* constructors: short texts inline, long ones exact
Construct(h) == \E l \in Int :
   /\ l >= 0 /\ ref[h] = 0
   /\ IF l <= MaxInline THEN len' = [len EXCEPT ![h] = l] /\ UNCHANGED <<ref, rc, live, cap, writes>>
      ELSE Fresh(h, l, l)

\* clone / clone_from: h becomes a copy of g (the length is copied with the handle)
Clone(h, g) ==
   /\ h # g
   /\ (IF ref[g] = 0 THEN rc' = RelRc(h) /\ live' = RelLive(h)
       ELSE IF ref[h] = ref[g] THEN UNCHANGED <<rc, live>>
       ELSE rc' = [RelRc(h) EXCEPT ![ref[g]] = @ + 1] /\ live' = RelLive(h))
   /\ ref' = [ref EXCEPT ![h] = ref[g]] /\ len' = [len EXCEPT ![h] = len[g]]
   /\ UNCHANGED <<cap, writes>>

\* drop
Leave(h) ==
   /\ rc' = RelRc(h) /\ live' = RelLive(h)
   /\ ref' = [ref EXCEPT ![h] = 0] /\ len' = [len EXCEPT ![h] = 0]
   /\ UNCHANGED <<cap, writes>>

Next == \E h \in H : AppendTo(h) \/ Remove(h) \/ Truncate(h) \/ Clear(h) \/ Shrink(h) \/ Construct(h) \/ Leave(h) \/ \E g \in H : Clone(h, g)

TypeOK == /\ ref \in [H -> B \union {0}] /\ len \in [H -> Int] /\ rc \in [B -> 0..3]
          /\ live \in [B -> BOOLEAN] /\ cap \in [B -> Int] /\ writes \in [B -> 0..1]
RcOK   == \A b \in B : rc[b] = Cardinality(Holders(b))
LiveOK == \A b \in B : live[b] <=> rc[b] > 0
CapOK  == \A h \in H : len[h] >= 0 /\ (IF ref[h] = 0 THEN len[h] <= MaxInline ELSE len[h] <= cap[ref[h]])
NoSharedWrite == \A b \in B : writes[b] = 0
IndInv == TypeOK /\ RcOK /\ LiveOK /\ CapOK /\ NoSharedWrite
=============================================================================
