CONSTANTS
  NH = 2
  MaxBufs = 3
  Statics <- cStatics
  OpKinds <- cOpsDecode
  StrArgs <- cStrS2
  CharArgs <- cChars
  Caps = {0, 30}
  IdxMode = "few"
  RetainPats <- cRetain
  ItemSeqs <- cItems2
  Hints = {0, 20}
  RawArgs <- cRaw
  U16Args <- cU16
  FailMode = 1
  PanicMode = 0
  Seeds <- cSeedsEmpty
  MaxSteps = 2
SPECIFICATION Spec
VIEW View
INVARIANTS ModelTypeOK NoUninitRead OwnInv
PROPERTIES AllSteps Refines
ACTION_CONSTRAINT Emit
CHECK_DEADLOCK FALSE
