CONSTANTS
  NH = 2
  MaxBufs = 3
  Statics <- cStatics
  OpKinds <- cOpsIdx
  StrArgs <- cStrMix
  CharArgs <- cChars
  Caps = {0}
  IdxMode = "all"
  RetainPats <- cRetain
  ItemSeqs <- cItems
  Hints = {0}
  RawArgs <- cRawNone
  U16Args <- cU16None
  FailMode = 0
  PanicMode = 0
  Seeds <- cSeedsIdx
  MaxSteps = 1
SPECIFICATION Spec
VIEW View
INVARIANTS ModelTypeOK NoUninitRead OwnInv
PROPERTIES AllSteps Refines
ACTION_CONSTRAINT Emit
CHECK_DEADLOCK FALSE
