CONSTANTS
  MaxLen8 = 4
  MaxLen16 = 4
  Mode = "u8"
SPECIFICATION Spec
INVARIANTS Emit Sane
CHECK_DEADLOCK FALSE
