CONSTANTS
  MaxLen8 = 4
  MaxLen16 = 4
  Mode = "u16"
SPECIFICATION Spec
INVARIANTS Emit Sane
CHECK_DEADLOCK FALSE
