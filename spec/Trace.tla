------------------------------- MODULE Trace -------------------------------
(* Pipeline C: validation of executions recorded from the real crate.

   The trace (ndjson, path in the environment variable TRACE) holds one or
   more histories: an "init" record, one "call" record per public call (the
   op with its observed outcome, the observation of every slot after it, what
   std String holds) and an "end" record (findings of the shadow heap when
   everything has been dropped).

   For every call the monitor
     1. advances the String oracle (StrModel) and evaluates EVERY predicate of
        Props on (observation before, observation after, call); the names of
        the failing ones are printed as a FAIL line - bin/check turns the ones
        that belong to the property being checked into a VIOLATION;
     2. runs the design model (LeanString!Do) on the same op and compares its
        prediction with what was observed; a difference is printed as a DRIFT
        line (never a violation by itself) and the design state is
        re-synchronised from the observation;
     3. cross-checks StrModel against what std String did (SPECERR lines:
        the specification, not the crate, is wrong).
   The monitor never rejects a trace because of what the code did: every
   record is consumed, so one early finding does not hide later ones.      *)
EXTENDS Integers, Sequences, FiniteSets, TLC, Json, IOUtils, Utf8

Rec == ndJsonDeserialize(IOEnv.TRACE)

TNH      == Rec[1].nh
TMaxBufs == Rec[1].maxbufs
TStatics == Rec[1].statics

LS == INSTANCE LeanString WITH NH <- TNH, MaxBufs <- TMaxBufs, Statics <- TStatics
S  == INSTANCE StrModel
P  == INSTANCE Props WITH PH <- 1..TNH, PB <- 1..TMaxBufs, PStatics <- TStatics

VARIABLES l,      \* next record
          txt,    \* String oracle
          o,      \* observation after the previous call
          st,     \* design model state
          sync,   \* the design state describes the observed pool
          hist    \* number of the current history
vars == <<l, txt, o, st, sync, hist>>

TH == 1..TNH
TB == 1..TMaxBufs
DeadObs == [k |-> "D", text |-> <<>>, len |-> 0, cap |-> 0, last |-> 0, pc |-> "none", pid |-> 0, rc |-> 0, heap |-> FALSE, rd |-> ""]
EmptyObs == [hd |-> [h \in TH |-> DeadObs], blk |-> [b \in TB |-> 0], sok |-> TRUE, nic |-> TRUE]
AllDead == [h \in TH |-> S!DeadT]

SeqToSet(s) == {s[i] : i \in 1..Len(s)}
\* the op as the specification writes it (f is a set there)
OpOf(c) == [op |-> c.op, v |-> c.v, t |-> c.t, h |-> c.h, g |-> c.g, n |-> c.n, m |-> c.m, s |-> c.s, x |-> c.x, f |-> SeqToSet(c.f)]
\* the observation without harness-only extras
ObsOf(p) == [hd |-> p.hd, blk |-> p.blk, sok |-> p.sok, nic |-> p.nic]

\* ------------------------------------------------ design state from an observation
WellFormed(p) ==
  /\ \A h \in TH : p.hd[h].k \in {"D", "I", "S", "H"}
  /\ \A h \in TH : p.hd[h].k = "H" => (p.hd[h].pid \in TB /\ p.blk[p.hd[h].pid] >= 16 + p.hd[h].cap /\ p.hd[h].len <= p.hd[h].cap
                                        /\ p.blk[p.hd[h].pid] = 16 + p.hd[h].cap)
  /\ \A h \in TH : p.hd[h].k = "S" => (p.hd[h].pid \in DOMAIN TStatics /\ p.hd[h].len <= Len(TStatics[p.hd[h].pid]))
  /\ \A h \in TH : p.hd[h].k = "I" => p.hd[h].len <= 16
  /\ \A b \in TB : p.blk[b] > 0 => P!Holders(p, b) # {}
  /\ \A h \in TH : p.hd[h].k # "D" => (Len(p.hd[h].text) = p.hd[h].len /\ ValidUtf8(p.hd[h].text))
Longest(p, b) == LET hs == P!Holders(p, b)
                     h == CHOOSE x \in hs : \A y \in hs : p.hd[y].len <= p.hd[x].len IN p.hd[h].text
StFromObs(p) ==
  [hs |-> [h \in TH |->
             LET r == p.hd[h] IN
             CASE r.k = "I" -> [k |-> "I", w |-> (IF r.len = 16 THEN r.text ELSE r.text \o LS!Zeros(15 - r.len) \o <<r.last>>), id |-> 0, len |-> 0]
               [] r.k = "S" -> LS!StaticRep(r.pid, r.len)
               [] r.k = "H" -> LS!HeapRep(r.pid, r.len)
               [] OTHER -> LS!Dead],
   bufs |-> [b \in TB |-> IF p.blk[b] > 0
                          THEN [live |-> TRUE, rc |-> Cardinality(P!Holders(p, b)), cap |-> p.blk[b] - 16,
                                data |-> LS!Pad(Longest(p, b), p.blk[b] - 16)]
                          ELSE LS!NoBuf]]

\* the design model can be asked about this call
Applicable(s, c) ==
  /\ c.h \in TH
  /\ c.op \in {"new", "from_str", "from_static", "with_capacity", "from_char", "clone", "clone_from", "drop", "reserve",
               "shrink_to", "push_str", "pop", "truncate", "clear", "remove", "insert_str", "retain", "extend", "collect", "compare", "display", "from_utf8_lossy", "from_utf16", "from_utf16_lossy", "clone_ovf"}
  /\ (c.op \in P!Ctors) <=> (s.hs[c.h].k = "D")
  /\ c.op \in {"clone", "clone_from", "compare", "clone_ovf"} => (c.g \in TH /\ s.hs[c.g].k # "D" /\ c.g # c.h)
  /\ c.op = "clone_ovf" => s.hs[c.g].k = "H"
  /\ c.op = "from_static" => c.g \in DOMAIN TStatics
  /\ LS!HasFreeBuf(s.bufs)

Say(tag, rec) == PrintT(tag \o " " \o ToJson(rec))

TargetKind(ob, c) ==
  IF c.h \notin TH THEN "?" ELSE
  LET r == ob.hd[c.h] IN
  IF r.k = "H" THEN (IF r.rc > 1 THEN "heap-shared" ELSE "heap-unique")
  ELSE IF r.k = "S" THEN "static" ELSE IF r.k = "I" THEN "inline" ELSE "new"
ArgClass(c) ==
  IF c.f # <<>> THEN "alloc-fails"
  ELSE IF c.n = -1 THEN "big" ELSE IF c.n = -2 THEN "toolong" ELSE IF c.n = -3 THEN "overflow" ELSE "plain"

CallStep(e) ==
  LET c   == e.c
      p   == ObsOf(e.o)
      op  == OpOf(c)
      a   == S!Abs(txt, op, TStatics)
      tx1 == S!NextTxt(txt, c, a, IF c.h \in TH THEN p.hd[c.h].text ELSE <<>>)
      bad == P!Failing(o, p, [c EXCEPT !.f = SeqToSet(c.f)], a, txt, tx1)
      ex  == P!Exercised(o, p, c)
      app == sync /\ Applicable(st, c)
      r   == LS!Do(st, op)
      drift == IF ~app THEN {}
               ELSE {k \in {"o"} : LS!Proj(r.st) # p}
                    \cup {k \in {"cls", "val", "msg", "dA", "dR", "dD", "inj"} : r.res[k] # c[k]}
      stdbad == /\ ~S!SFailed(c) /\ c.scls # "skipped"
                /\ \/ \E h \in TH : e.std[h] # tx1[h]
                   \/ c.scls # a.cls \/ c.sval # a.val \/ (a.cls = "panic" /\ c.smsg # a.msg)
  IN
  /\ txt' = tx1
  /\ o' = p
  /\ IF app /\ drift = {} THEN st' = r.st /\ sync' = TRUE
     ELSE IF WellFormed(p) THEN st' = StFromObs(p) /\ sync' = TRUE
     ELSE st' = LS!EmptySt /\ sync' = FALSE
  /\ hist' = hist
  /\ a.cls = "unknown" => Say("SPECERR", [l |-> l, hist |-> hist, why |-> "op outside the specification", op |-> c.op])
  /\ (a.cls # "unknown" /\ stdbad) => Say("SPECERR", [l |-> l, hist |-> hist, why |-> "StrModel disagrees with std String", op |-> c.op])
  /\ (a.cls # "unknown" /\ bad # {}) =>
        Say("FAIL", [l |-> l, hist |-> hist, bad |-> bad, op |-> c.op, e |-> c.e, t |-> c.t, tk |-> TargetKind(o, c),
                     arg |-> ArgClass(c), cls |-> c.cls, msg |-> c.msg, shim |-> c.shim])
  /\ drift # {} => Say("DRIFT", [l |-> l, hist |-> hist, what |-> drift, op |-> c.op, tk |-> TargetKind(o, c)])
  /\ (~app /\ c.op # "init") => Say("NOMODEL", [l |-> l, hist |-> hist, op |-> c.op])
  /\ ex # {} => Say("EX", [ex |-> ex])

EndStep(e) ==
  /\ UNCHANGED <<txt, o, st, sync, hist>>
  /\ e.errs # <<>> => Say("FAIL", [l |-> l, hist |-> hist, bad |-> {"EndClean"}, op |-> "end", e |-> "", t |-> 0, tk |-> "",
                                    arg |-> "plain", cls |-> "", msg |-> "", shim |-> e.errs])

Init == l = 1 /\ txt = AllDead /\ o = EmptyObs /\ st = LS!EmptySt /\ sync = TRUE /\ hist = 0

Next ==
  /\ l <= Len(Rec)
  /\ l' = l + 1
  /\ LET e == Rec[l] IN
     CASE e.ev = "init" -> txt' = AllDead /\ o' = EmptyObs /\ st' = LS!EmptySt /\ sync' = TRUE /\ hist' = hist + 1
       [] e.ev = "call" -> CallStep(e)
       [] e.ev = "end"  -> EndStep(e)
       [] OTHER -> UNCHANGED <<txt, o, st, sync, hist>>

Spec == Init /\ [][Next]_vars

\* every record was consumed (the only way not to is an evaluation error, which TLC reports)
Consumed ==
  LET d == TLCGet("stats").diameter IN
  IF d - 1 = Len(Rec) THEN PrintT("CONSUMED " \o ToString(Len(Rec)))
  ELSE Print(<<"STUCK at record", d, Rec[d]>>, FALSE)
=============================================================================
