------------------------------ MODULE MC_Codec ------------------------------
(* Exhaustive enumeration of short code-unit sequences over class alphabets;
   one line per sequence with what the standard says about it.  The harness
   replays every line on from_utf8 / from_utf8_lossy / from_utf16 /
   from_utf16_lossy, on the serde byte visitors, and on std's counterparts.  *)
EXTENDS Codec, TLC, Json
CONSTANTS MaxLen8, MaxLen16, Mode     \* Mode: "u8" | "u16"
VARIABLE s
\* one representative of every UTF-8 byte class (and both ends of the ranges that matter)
A8 == {65, 128, 143, 144, 159, 160, 187, 189, 191, 192, 193, 194, 223, 224, 225, 236, 237, 238, 239, 240, 241, 243, 244, 245, 255}
\* 187, 189: EF BB BF is U+FEFF, EF BF BD is U+FFFD (valid text that looks like the decoder's own replacement output)
A8small == {65, 128, 144, 160, 187, 189, 191, 193, 194, 224, 225, 237, 239, 240, 241, 244, 245, 255, 143}
\* BMP below / above the surrogates, both surrogate range ends, NUL, max
A16 == {0, 65, 233, 55295, 55296, 56319, 56320, 57343, 57344, 65279, 65533, 65535}
\* Mode "u8" / "u16": all sequences up to the bound over the class alphabets; "u8all" / "u16all": EVERY byte pair / EVERY single
\* code unit (a decoder may treat a content class specially - "all below 0x200" - that no class alphabet happens to hit)
IsU8 == Mode \in {"u8", "u8all"}
Alpha == CASE Mode = "u8" -> A8small [] Mode = "u8all" -> 0..255 [] Mode = "u16all" -> 0..65535 [] OTHER -> A16
MaxL == IF IsU8 THEN MaxLen8 ELSE MaxLen16
Init == s = <<>>
Next == Len(s) < MaxL /\ \E a \in Alpha : s' = Append(s, a)
Spec == Init /\ [][Next]_s
Emit == IF IsU8
        THEN PrintT("U8 " \o ToJson([b |-> s, v |-> Valid8(s), t |-> Lossy8(s)]))
        ELSE LET r == Dec16(s) IN PrintT("U16 " \o ToJson([u |-> s, ok |-> r.ok, t |-> r.text, l |-> r.lossy]))
\* the two decoders agree on well-formed input, and the lossy text is always well-formed
Sane == IF IsU8 THEN (Valid8(s) => Lossy8(s) = s) /\ Valid8(Lossy8(s))
        ELSE LET r == Dec16(s) IN (r.ok => r.text = r.lossy) /\ Valid8(r.lossy)
=============================================================================
