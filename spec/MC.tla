--------------------------------- MODULE MC ---------------------------------
(* Bounded exhaustive exploration of the design model (pipeline A) and the
   source of the transitions replayed on the real crate (pipeline B).
   One module, many configurations (MC_*.cfg): each picks operation kinds,
   argument alphabets, seeds, fault mode and a depth.                       *)
EXTENDS LeanString, TLC, Json

CONSTANTS OpKinds,     \* which operations are explored
          StrArgs,     \* byte sequences used as from_str / push_str / insert_str arguments
          CharArgs,    \* encoded chars for from_char
          Caps,        \* sizes for with_capacity / reserve / shrink_to (may contain BIG, TOOLONG, OVERFLOW)
          IdxMode,     \* "few": {0,1,2,len,len+1}   "all": 0..len+2
          RetainPats,  \* decision sequences for retain
          ItemSeqs,    \* item sequences for extend / collect
          Hints,       \* size hints for extend / collect
          RawArgs,     \* byte sequences (not necessarily UTF-8) for from_utf8_lossy
          U16Args,     \* u16 sequences for from_utf16 / from_utf16_lossy
          FailMode,    \* 0: no injected failures, 1: each request singly, 2: also pairs
          PanicMode,   \* 0: iterators never panic, 1: every panic position
          Seeds,       \* set of seed paths (sequences of ops); <<>> is the empty pool
          MaxSteps

VARIABLES st, txt, last, path, steps
vars == <<st, txt, last, path, steps>>

S == INSTANCE StrModel
P == INSTANCE Props WITH PH <- H, PB <- B, PStatics <- Statics

OpRec(o, v, t, h, g, n, m, s, x, f) ==
  [op |-> o, v |-> v, t |-> t, h |-> h, g |-> g, n |-> n, m |-> m, s |-> s, x |-> x, f |-> f]

LiveH(s) == {h \in H : s.hs[h].k # "D"}
LowestDead(s) == IF \E h \in H : s.hs[h].k = "D"
                 THEN {CHOOSE h \in H : s.hs[h].k = "D" /\ \A g \in H : s.hs[g].k = "D" => h <= g} ELSE {}
TextOf(s, h) == RText(s.hs[h], s.bufs)
Idx(t) == IF IdxMode = "all" THEN 0..(Len(t) + 2) ELSE {0, 1, 2, Len(t), Len(t) + 1}
PanicPos(items) == IF PanicMode = 1 THEN 0..(Len(items) + 1) ELSE {0}
K(o) == o \in OpKinds

\* every call offered in state s, without injected failures
BaseOps(s) ==
  LET nd == LowestDead(s)  lv == LiveH(s) IN
     {OpRec("new", "", 0, h, 0, 0, 0, <<>>, <<>>, {}) : h \in IF K("new") THEN nd ELSE {}}
  \cup {OpRec("from_str", "", 0, h, 0, 0, 0, a, <<>>, {}) : h \in IF K("from_str") THEN nd ELSE {}, a \in StrArgs}
  \cup {OpRec("from_static", "", 0, h, g, 0, 0, <<>>, <<>>, {}) : h \in IF K("from_static") THEN nd ELSE {}, g \in DOMAIN Statics}
  \cup {OpRec("with_capacity", "", 0, h, 0, n, 0, <<>>, <<>>, {}) : h \in IF K("with_capacity") THEN nd ELSE {}, n \in Caps \ {OVERFLOW}}
  \cup {OpRec("from_char", "", 0, h, 0, 0, 0, a, <<>>, {}) : h \in IF K("from_char") THEN nd ELSE {}, a \in CharArgs}
  \cup {OpRec("clone", "", 0, h, g, 0, 0, <<>>, <<>>, {}) : h \in IF K("clone") THEN nd ELSE {}, g \in lv}
  \cup {OpRec("clone_ovf", "", 0, h, g, 0, 0, <<>>, <<>>, {}) : h \in IF K("clone_ovf") THEN nd ELSE {}, g \in {x \in lv : s.hs[x].k = "H"}}
  \cup {OpRec("from_utf8_lossy", "", 0, h, 0, 0, 0, a, <<>>, {}) : h \in IF K("from_utf8_lossy") THEN nd ELSE {}, a \in RawArgs}
  \cup {OpRec(o2, "", 0, h, 0, 0, 0, <<>>, u, {}) : h \in IF K("from_utf16") THEN nd ELSE {}, u \in U16Args, o2 \in {"from_utf16", "from_utf16_lossy"}}
  \cup {OpRec("collect", v, 0, h, 0, n, m, <<>>, x, {}) : h \in IF K("collect") THEN nd ELSE {}, v \in {"chars", "strs"},
            n \in Hints \ {OVERFLOW}, x \in ItemSeqs, m \in {0}} \* panic positions added below
  \cup {OpRec("display", "", t, h, 0, n, 0, <<>>, x, {}) : h \in IF K("display") THEN nd ELSE {}, x \in ItemSeqs, n \in 0..3, t \in {0, 1}}
  \cup {OpRec("clone_from", "", 0, h, g, 0, 0, <<>>, <<>>, {}) : h \in IF K("clone_from") THEN lv ELSE {}, g \in lv} 
  \cup {OpRec("drop", "", 0, h, 0, 0, 0, <<>>, <<>>, {}) : h \in IF K("drop") THEN lv ELSE {}}
  \cup {OpRec("compare", "", 0, h, g, 0, 0, <<>>, <<>>, {}) : h \in IF K("compare") THEN lv ELSE {}, g \in lv}
  \cup {OpRec("reserve", "", 0, h, 0, n, 0, <<>>, <<>>, {}) : h \in IF K("reserve") THEN lv ELSE {}, n \in Caps}
  \cup {OpRec("shrink_to", "", 0, h, 0, n, 0, <<>>, <<>>, {}) : h \in IF K("shrink_to") THEN lv ELSE {}, n \in Caps \ {OVERFLOW}}
  \cup {OpRec("push_str", "", 0, h, 0, 0, 0, a, <<>>, {}) : h \in IF K("push_str") THEN lv ELSE {}, a \in StrArgs}
  \cup {OpRec("pop", "", 0, h, 0, 0, 0, <<>>, <<>>, {}) : h \in IF K("pop") THEN lv ELSE {}}
  \cup {OpRec("clear", "", 0, h, 0, 0, 0, <<>>, <<>>, {}) : h \in IF K("clear") THEN lv ELSE {}}
  \cup UNION {{OpRec("truncate", "", 0, h, 0, i, 0, <<>>, <<>>, {}) : i \in Idx(TextOf(s, h))} : h \in IF K("truncate") THEN lv ELSE {}}
  \cup UNION {{OpRec("remove", "", 0, h, 0, i, 0, <<>>, <<>>, {}) : i \in Idx(TextOf(s, h))} : h \in IF K("remove") THEN lv ELSE {}}
  \cup UNION {{OpRec("insert_str", "", 0, h, 0, i, 0, a, <<>>, {}) : i \in Idx(TextOf(s, h)), a \in StrArgs} : h \in IF K("insert_str") THEN lv ELSE {}}
  \cup {OpRec("retain", "", 0, h, 0, 0, 0, <<>>, x, {}) : h \in IF K("retain") THEN lv ELSE {}, x \in RetainPats}
  \cup {OpRec("extend", v, 0, h, 0, n, 0, <<>>, x, {}) : h \in IF K("extend") THEN lv ELSE {}, v \in {"chars", "strs"},
            n \in Hints, x \in ItemSeqs}

\* overflow needs a non-empty target; clone_from needs two different handles
Sane(s, o) ==
  /\ o.n = OVERFLOW => (o.op \in {"reserve", "extend"} /\ Len(TextOf(s, o.h)) > 0)
  /\ o.op \in {"clone_from", "compare"} => o.h # o.g
  /\ (o.op \in {"extend", "collect"} /\ o.v = "strs") => o.n = 0
  /\ (o.op \in {"extend", "collect"} /\ o.v = "chars") => \A i \in 1..Len(o.x) : Len(o.x[i]) >= 1 /\ WidthOfLead(o.x[i][1]) = Len(o.x[i])
  /\ o.op = "display" => o.n <= Len(o.x) + 1

WithPanics(o) == IF o.op \in {"extend", "collect", "display"} THEN {[o EXCEPT !.m = m] : m \in PanicPos(o.x)} ELSE {o}

\* injected allocation failures: each request the call would issue, singly (and in pairs)
FailSets(s, o) ==
  IF FailMode = 0 THEN {{}}
  ELSE LET n0 == Do(s, o).res.nreq
           one == {{k} : k \in 1..(n0 + 1)}     \* n0 + 1: a request the design does not issue; should the code issue it, it fails
           two == IF FailMode = 2 THEN {{j, k} : j \in 1..n0, k \in 1..(n0 + 1)} ELSE {} IN
       {{}} \cup one \cup two
WithFailures(s, o) ==
  UNION {IF (f = {} /\ ~IsSym(o.n)) \/ o.op \in {"display", "from_utf8_lossy", "from_utf16", "from_utf16_lossy"} THEN {[o EXCEPT !.f = f]} ELSE {[o EXCEPT !.f = f, !.t = t] : t \in {0, 1}} : f \in FailSets(s, o)}

Ops(s) == UNION {UNION {WithFailures(s, o2) : o2 \in WithPanics(o)} : o \in {b \in BaseOps(s) : Sane(s, b)}}

\* room for the at most two buffers a single call may allocate before it releases one
Roomy(s) == Cardinality({b \in B : ~s.bufs[b].live}) >= 1

\* xA: allocator requests of the call outside the buffer allocator (hidden temporaries): the design has none
Call(op, res) == op @@ res @@ [shim |-> <<>>, xA |-> 0]
ObsText(s, op) == IF s.hs[op.h].k = "D" THEN <<>> ELSE TextOf(s, op.h)

RECURSIVE RunSeed(_, _, _)
RunSeed(s, tx, ops) ==     \* state and oracle after a seed path
  IF ops = <<>> THEN [st |-> s, txt |-> tx]
  ELSE LET r == Do(s, Head(ops))
           a == S!Abs(tx, Head(ops), Statics) IN
       RunSeed(r.st, S!NextTxt(tx, Call(Head(ops), r.res), a, ObsText(r.st, Head(ops))), Tail(ops))

NoCall == [op |-> "init"]
Init == \E sd \in Seeds :
          LET r == RunSeed(EmptySt, [h \in H |-> S!DeadT], sd) IN
          /\ st = r.st /\ txt = r.txt /\ last = NoCall /\ path = sd /\ steps = 0
          /\ PrintT("HDR " \o ToJson([nh |-> NH, maxbufs |-> MaxBufs, statics |-> Statics]))

Step(op) ==
  LET r == Do(st, op)
      a == S!Abs(txt, op, Statics)
      c == Call(op, r.res) IN
  /\ st' = r.st
  /\ txt' = S!NextTxt(txt, c, a, ObsText(r.st, op))
  /\ last' = c
  /\ path' = Append(path, op)
  /\ steps' = steps + 1

Next == steps < MaxSteps /\ Roomy(st) /\ \E op \in Ops(st) : Step(op)
Spec == Init /\ [][Next]_vars

View == <<st, txt, steps>>

\* ----- properties (pipeline A): every predicate of Props on every transition
StepOK ==
  LET o == Proj(st)  p == Proj(st')  c == last'
      a == S!Abs(txt, [k \in {"op","v","t","h","g","n","m","s","x","f"} |-> c[k]], Statics)
      bad == P!Failing(o, p, c, a, txt, txt') IN
  bad = {} \/ (PrintT(<<"FAILING", bad, c>>) /\ FALSE)
AllSteps == [][StepOK]_vars

\* ----- the design model refines the ownership protocol (Own.tla, whose invariant is proved
\* inductively with Apalache): every explored transition is one Own step or a stuttering step
OwnRef  == [h \in H |-> IF st.hs[h].k = "H" THEN st.hs[h].id ELSE 0]
OwnRc   == [b \in B |-> st.bufs[b].rc]
OwnLive == [b \in B |-> st.bufs[b].live]
O == INSTANCE Own WITH H <- H, B <- B, ref <- OwnRef, rc <- OwnRc, live <- OwnLive, writes <- [b \in B |-> 0]
Refines == [][O!Next \/ UNCHANGED <<OwnRef, OwnRc, OwnLive>>]_vars
OwnInv == O!RcOK /\ O!LiveOK

\* design-level invariants that are not observation predicates
ModelTypeOK ==
  /\ \A h \in H : st.hs[h].k \in {"D", "I", "S", "H"}
  /\ \A h \in H : st.hs[h].k = "I" => (Len(st.hs[h].w) = 16 /\ \A i \in 1..16 : st.hs[h].w[i] \in 0..255)
  /\ \A h \in H : st.hs[h].k = "H" => (st.hs[h].id \in B /\ st.bufs[st.hs[h].id].live /\ st.hs[h].len <= st.bufs[st.hs[h].id].cap)
  /\ \A b \in B : st.bufs[b].live => Len(st.bufs[b].data) = st.bufs[b].cap
\* a handle never exposes a byte that was never written
NoUninitRead == \A h \in H : st.hs[h].k = "H" => \A i \in 1..st.hs[h].len : st.bufs[st.hs[h].id].data[i] >= 0

\* ----- emission (pipeline B): one line per transition between explored states
\* (ex: the predicates whose antecedent this transition makes true - vacuity accounting)
Emit == PrintT("EDGE " \o ToJson([path |-> path', o |-> Proj(st'), c |-> last',
                                    ex |-> P!Exercised(Proj(st), Proj(st'), last')]))

=============================================================================
