CONSTANTS
  NH = 2
  MaxBufs = 3
  Statics <- cStatics
  OpKinds <- cOpsShrink
  StrArgs <- cStrS2
  CharArgs <- cChars
  Caps <- cCapsShrink
  IdxMode = "few"
  RetainPats <- cRetain
  ItemSeqs <- cItems
  Hints = {0}
  RawArgs <- cRawNone
  U16Args <- cU16None
  FailMode = 0
  PanicMode = 0
  Seeds <- cSeedsShrink
  MaxSteps = 2
SPECIFICATION Spec
VIEW View
INVARIANTS ModelTypeOK NoUninitRead OwnInv
PROPERTIES AllSteps Refines
ACTION_CONSTRAINT Emit
CHECK_DEADLOCK FALSE
