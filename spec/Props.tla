------------------------------- MODULE Props -------------------------------
(* The listed properties as predicates over OBSERVATIONS, not over the model's
   internals.  The same text is evaluated
     - in the exhaustive runs on  o = Proj(st), p = Proj(st'), and
     - in trace validation on what the harness recorded from the real crate.
   o / p : observation before / after a call (see LeanString!Proj)
   c     : the call: the op record plus cls, val, msg, dA, dR, dD, inj, shim
   a     : what StrModel (= String) says about the same call
   tx0/tx1 : oracle texts before / after
   Each predicate is named; Failing(..) is the set of names that are false.
   Which names are fatal for which property is listed in DESIGN.md 5 and in
   bin/check (PRED_PROPS).                                                  *)
EXTENDS Integers, Sequences, FiniteSets, Utf8

CONSTANTS PH,        \* set of handle slots
          PB,        \* set of buffer ids
          PStatics   \* the static texts
DeadTx == <<-1>>
MaxInl == 16
HdrSize == 16
PIsSym(n) == n < 0

Live(o)       == {h \in PH : o.hd[h].k # "D"}
Holders(o, b) == {h \in PH : o.hd[h].k = "H" /\ o.hd[h].pid = b}
Failed(c)     == (c.cls = "err" /\ c.msg = "reserve") \/ (c.cls = "panic" /\ c.msg = "reserve")
T(c)          == c.h

IterOps   == {"extend", "collect", "display", "from_utf8_lossy", "from_utf16", "from_utf16_lossy"}
SizedOps  == {"with_capacity", "reserve", "shrink_to", "extend", "collect"}
CloneOps  == {"clone", "clone_from"}
TextCtors == {"from_str", "from_char"}
Ctors     == {"new", "from_str", "from_static", "with_capacity", "from_char", "clone", "clone_ovf", "collect", "display",
              "from_utf8_lossy", "from_utf16", "from_utf16_lossy"}
EditOps   == {"push_str", "insert_str", "pop", "remove", "retain", "truncate", "clear"}
AppendOps == {"push_str", "insert_str"}
IndexOps  == {"insert_str", "remove", "truncate"}

\* ------------------------------------------------------------ state predicates
TextOK(p, tx1) ==                                                              \* C01
  \A h \in PH : /\ (tx1[h] = DeadTx) <=> (p.hd[h].k = "D")
                /\ p.hd[h].k # "D" => (p.hd[h].text = tx1[h] /\ p.hd[h].len = Len(tx1[h]))
                \* rd names the readers (as_str, len, is_empty, Deref, AsRef, Borrow, Into<String>) that
                \* disagree with as_bytes; all of them read the one text
                /\ p.hd[h].rd = ""
Utf8OK(p)  == \A h \in Live(p) : ValidUtf8(p.hd[h].text)                      \* C07
CapOK(p)   == \A h \in Live(p) : p.hd[h].cap >= p.hd[h].len                   \* C11
RcOK(p)    == \A h \in Live(p) : p.hd[h].k = "H" =>                           \* C03
                 p.hd[h].rc = Cardinality(Holders(p, p.hd[h].pid))
BlocksOK(p) ==                                                                 \* C03
  /\ \A h \in Live(p) : p.hd[h].k = "H" =>
        (p.hd[h].pid \in PB /\ p.blk[p.hd[h].pid] >= HdrSize + p.hd[h].cap)    \* not dangling, room is there
  /\ \A b \in PB : p.blk[b] > 0 => Holders(p, b) # {}                          \* not leaked
NicheFree(p) ==                                                                \* C20
  /\ p.nic
  /\ \A h \in Live(p) : /\ p.hd[h].last <= 209
                        /\ (p.hd[h].k = "I") <=> (p.hd[h].last < 208)
                        /\ (p.hd[h].k = "H") <=> (p.hd[h].last = 208)
                        /\ (p.hd[h].k = "S") <=> (p.hd[h].last = 209)
PtrOK(p) == \A h \in Live(p) :                                                 \* C09 C20
              /\ (p.hd[h].k = "I") <=> (p.hd[h].pc = "self")
              /\ (p.hd[h].k = "S") <=> (p.hd[h].pc = "static")
              /\ (p.hd[h].k = "H") <=> (p.hd[h].pc = "heap")
              /\ p.hd[h].heap <=> (p.hd[h].k = "H")
              /\ (p.hd[h].k = "I") => p.hd[h].cap = MaxInl
StaticsOK(p) == p.sok                                                          \* C10
StaticPrefix(p) == \A h \in Live(p) : p.hd[h].k = "S" =>                       \* C10
                     (p.hd[h].pid \in DOMAIN PStatics /\ IsPrefix(p.hd[h].text, PStatics[p.hd[h].pid]))

\* ------------------------------------------------------------- step predicates
\* (shrink_to is a sized operation that never needs more than it has: a giant lower bound is a no-op, as for String)
FailureAllowed(c) == c.inj \/ (c.op \in (SizedOps \ {"shrink_to"}) /\ PIsSym(c.n))
ResultOK(c, a) ==                                                              \* C01 C07
  IF Failed(c) THEN FailureAllowed(c)      \* String never fails here: an error needs a cause
  ELSE c.cls = a.cls /\ c.val = a.val /\ (c.cls = "panic" => c.msg = a.msg)

Isolation(o, p, c) ==                                                          \* C02
  \A g \in Live(o) \ {T(c)} :
     /\ g \in Live(p)
     /\ p.hd[g].text = o.hd[g].text /\ p.hd[g].len = o.hd[g].len
     /\ p.hd[g].pc = o.hd[g].pc /\ p.hd[g].pid = o.hd[g].pid

NoResizeShared(o, p, c) ==                                                     \* C03
  \A b \in PB : (o.blk[b] > 0 /\ Holders(o, b) \ {T(c)} # {}) => p.blk[b] = o.blk[b]
ShimOK(c) == c.shim = <<>>                                                     \* C03 C05 C06

RejectedIsNoop(o, p, c) ==                                                     \* C07
  (c.cls = "panic" /\ c.msg = "index") => (p = o /\ c.dA + c.dR + c.dD = 0)

OthersKeepText(o, p, c) == \A g \in Live(o) \ {T(c)} : g \in Live(p) /\ p.hd[g].text = o.hd[g].text
TargetAfterFailure(o, p, c) ==
  IF c.op \in Ctors THEN p.hd[T(c)].k = "D"
  ELSE IF c.op = "extend" THEN p.hd[T(c)].k # "D" /\ p.hd[T(c)].text \in
           {o.hd[T(c)].text \o Concat(SubSeq(c.x, 1, j)) : j \in 0..Len(c.x)}
  \* "the target still holds exactly the value it held before" / "never leave the target changed": the whole handle - text,
  \* length, capacity (a reservation granted earlier is still there), storage, sharing
  ELSE p.hd[T(c)] = o.hd[T(c)]
FailAtomic(o, p, c) ==                                                         \* C05
  c.inj =>
    /\ c.op \notin (IterOps \ {"display"}) => (Failed(c) /\ c.cls = (IF c.t = 1 THEN "err" ELSE "panic"))
    /\ c.cls # "err" \/ c.t = 1
    /\ OthersKeepText(o, p, c)
    /\ Failed(c) => TargetAfterFailure(o, p, c)

SizeSafe(o, p, c) ==                                                           \* C06
  (c.op \in SizedOps /\ Failed(c)) =>
     /\ OthersKeepText(o, p, c)
     /\ c.op \notin IterOps => \A g \in Live(o) \ {T(c)} : p.hd[g] = o.hd[g]
     /\ TargetAfterFailure(o, p, c)

CloneCheap(o, p, c) ==                                                         \* C08
  (c.op \in CloneOps /\ c.cls = "ok") =>
     LET src == o.hd[c.g]  cp == p.hd[T(c)] IN
     /\ c.dA = 0 /\ c.dR = 0 /\ c.xA = 0        \* xA: requests to the global allocator behind the buffer allocator's back
     /\ cp.k # "D" /\ cp.text = src.text /\ p.hd[c.g].text = src.text
     /\ src.k \in {"H", "S"} => (cp.pc = src.pc /\ cp.pid = src.pid)
     /\ src.k = "I" => cp.pc = "self"

CtorStorage(p, c, a) ==                                                        \* C09
  /\ (c.op \in TextCtors /\ c.cls = "ok") =>
     LET n == Len(a.txt[T(c)])  r == p.hd[T(c)] IN
     IF n <= MaxInl THEN r.k # "H" /\ ~r.heap /\ c.dA = 0 /\ c.dR = 0 /\ c.xA = 0
     ELSE r.heap /\ c.dA = 1 /\ c.dR = 0 /\ c.xA = 0 /\ r.cap = n
  \* "through every constructor and conversion": a decoded text of at most 16 bytes is inline as well (a decoder's
  \* buffer for a longer text is its own business: it sizes by the input, not by the result)
  /\ (c.op \in {"from_utf8_lossy", "from_utf16", "from_utf16_lossy"} /\ c.cls = "ok" /\ Len(a.txt[T(c)]) <= MaxInl) =>
        (p.hd[T(c)].k # "H" /\ ~p.hd[T(c)].heap /\ c.dA = 0 /\ c.dR = 0)
  \* collecting from an iterator whose lower bound is honest (not above the bytes it delivers): at most 16 bytes stay inline
  /\ (c.op = "collect" /\ c.cls = "ok" /\ c.m = 0 /\ ~PIsSym(c.n) /\ c.n <= Len(a.txt[T(c)]) /\ Len(a.txt[T(c)]) <= MaxInl) =>
        (p.hd[T(c)].k # "H" /\ ~p.hd[T(c)].heap /\ c.dA = 0 /\ c.dR = 0)
InlineEdit(o, p, c) ==                                                         \* C09
  (c.op \in EditOps /\ o.hd[T(c)].k = "I" /\ p.hd[T(c)].k # "D" /\ p.hd[T(c)].len <= MaxInl) =>
     (c.dA + c.dR + c.xA = 0 /\ p.hd[T(c)].k # "H" /\ ~p.hd[T(c)].heap)

StaticBorrow(o, p, c) ==                                                       \* C10
  /\ (c.op = "from_static" /\ c.cls = "ok") =>
        /\ c.dA + c.dR + c.xA = 0
        /\ ~p.hd[T(c)].heap
        /\ p.hd[T(c)].len > MaxInl => (p.hd[T(c)].pc = "static" /\ p.hd[T(c)].pid = c.g)
  \* "popping, truncating and clearing it keep doing so": whatever is left, also when it would fit inline - only an
  \* operation that needs to write or grow moves the handle to its own storage
  /\ (c.op \in {"pop", "truncate", "clear", "shrink_to"} /\ o.hd[T(c)].k = "S" /\ c.cls \in {"ok", "some", "none"}) =>
        /\ c.dA + c.dR + c.xA = 0
        /\ p.hd[T(c)].k = "S" /\ p.hd[T(c)].pc = o.hd[T(c)].pc /\ p.hd[T(c)].pid = o.hd[T(c)].pid
  /\ (c.op \in CloneOps /\ c.cls = "ok" /\ o.hd[c.g].k = "S") =>
        /\ c.dA + c.dR + c.xA = 0
        /\ p.hd[T(c)].len > MaxInl => (p.hd[T(c)].pc = "static" /\ p.hd[T(c)].pid = o.hd[c.g].pid)
  \* a call rejected for its index neither writes nor grows: the handle keeps borrowing, nothing is copied
  /\ (c.cls = "panic" /\ c.msg = "index" /\ c.op \notin Ctors /\ o.hd[T(c)].k = "S") =>
        (c.dA + c.dR = 0 /\ p.hd[T(c)] = o.hd[T(c)])

CapGE(cap, len, n) == IF PIsSym(n) THEN FALSE ELSE cap >= len + n
WithCap(p, c) == (c.op = "with_capacity" /\ c.cls = "ok") => CapGE(p.hd[T(c)].cap, 0, c.n)     \* C11 C06
ReservePost(o, p, c) ==                                                        \* C11 C06
  (c.op = "reserve" /\ c.cls = "ok") =>
     /\ CapGE(p.hd[T(c)].cap, o.hd[T(c)].len, c.n)
     /\ p.hd[T(c)].k \in {"I", "H"} /\ (p.hd[T(c)].k = "H" => p.hd[T(c)].rc = 1)      \* for every n, 0 included
Exclusive(o, h) == o.hd[h].k = "I" \/ (o.hd[h].k = "H" /\ o.hd[h].rc = 1)
NoReallocInCap(o, p, c) ==                                                     \* C11
  /\ (c.op \in AppendOps /\ c.cls = "ok" /\ Exclusive(o, T(c)) /\ o.hd[T(c)].len + Len(c.s) <= o.hd[T(c)].cap) =>
     (c.dA + c.dR + c.xA = 0 /\ p.hd[T(c)].pc = o.hd[T(c)].pc /\ p.hd[T(c)].pid = o.hd[T(c)].pid)
  \* appending through an iterator: the items (and, for chars, the announced lower bound) fit the reported capacity
  /\ (c.op = "extend" /\ c.cls = "ok" /\ Exclusive(o, T(c)) /\ ~PIsSym(c.n)
        /\ o.hd[T(c)].len + Max(Len(Concat(c.x)), IF c.v = "chars" THEN c.n ELSE 0) <= o.hd[T(c)].cap) =>
     (c.dA + c.dR = 0 /\ p.hd[T(c)].pc = o.hd[T(c)].pc /\ p.hd[T(c)].pid = o.hd[T(c)].pid)

\* appending str pieces through an iterator is a series of appends: however many growth steps it took, the capacity it ends
\* with is at most 1.5 x the text it ends with (the pieces' COUNT is not something to reserve for)
GrowthIter(o, p, c) ==
  (c.op \in {"extend", "collect"} /\ c.v = "strs" /\ c.cls = "ok" /\ c.m = 0 /\ c.dA + c.dR > 0 /\ p.hd[T(c)].k = "H") =>
     p.hd[T(c)].cap <= Max(p.hd[T(c)].len + (p.hd[T(c)].len \div 2), 0)
Growth(o, p, c) ==                                                             \* C12
  /\ GrowthIter(o, p, c)
  /\ (c.op \in (AppendOps \cup {"reserve"}) /\ c.cls = "ok" /\ c.dA + c.dR > 0 /\ p.hd[T(c)].k = "H"
        /\ ~(c.op = "reserve" /\ PIsSym(c.n))) =>
       LET l    == o.hd[T(c)].len
           lo   == l + (l \div 2)
           add  == IF c.op = "reserve" THEN c.n ELSE Len(c.s)
           need == l + add IN
       p.hd[T(c)].cap >= lo /\ p.hd[T(c)].cap <= Max(lo, need)

ShrinkPost(o, p, c) ==                                                         \* C13
  (c.op = "shrink_to" /\ c.cls = "ok") =>
     LET l  == o.hd[T(c)].len
         cp == o.hd[T(c)].cap
         m  == c.n
         tg == IF PIsSym(m) THEN cp ELSE Max(l, m) IN     \* a huge m can only ask for "at least what you have"
     /\ \A g \in Live(o) : g \in Live(p) /\ p.hd[g].text = o.hd[g].text
     /\ p.hd[T(c)].cap <= Max(cp, MaxInl)
     /\ p.hd[T(c)].cap >= l
     /\ p.hd[T(c)].cap >= (IF PIsSym(m) THEN cp ELSE Min(m, cp))
     /\ (o.hd[T(c)].k = "H" /\ cp > tg) => (p.hd[T(c)].cap = tg \/ (tg <= MaxInl /\ p.hd[T(c)].k = "I"))

CallbackPanicOK(o, p, c, tx1) ==                                               \* C18
  (c.cls = "panic" /\ c.msg = "callback") =>
     (TextOK(p, tx1) /\ Isolation(o, p, c) /\ RcOK(p) /\ BlocksOK(p))

\* equality, ordering, hashing, formatting: functions of the text alone (C17)
TextOnly(c, a) == c.op = "compare" => (c.cls = "ok" /\ c.val = a.val)

\* --------------------------------------------------------------- the table
PredTable(o, p, c, a, tx0, tx1) ==
  [TextOK |-> TextOK(p, tx1), Utf8OK |-> Utf8OK(p), CapOK |-> CapOK(p), RcOK |-> RcOK(p),
   BlocksOK |-> BlocksOK(p), NicheFree |-> NicheFree(p), PtrOK |-> PtrOK(p), StaticsOK |-> StaticsOK(p),
   StaticPrefix |-> StaticPrefix(p),
   ResultOK |-> ResultOK(c, a), Isolation |-> Isolation(o, p, c), NoResizeShared |-> NoResizeShared(o, p, c),
   ShimOK |-> ShimOK(c), RejectedIsNoop |-> RejectedIsNoop(o, p, c), FailAtomic |-> FailAtomic(o, p, c),
   SizeSafe |-> SizeSafe(o, p, c), CloneCheap |-> CloneCheap(o, p, c), CtorStorage |-> CtorStorage(p, c, a),
   InlineEdit |-> InlineEdit(o, p, c), StaticBorrow |-> StaticBorrow(o, p, c), WithCap |-> WithCap(p, c),
   ReservePost |-> ReservePost(o, p, c), NoReallocInCap |-> NoReallocInCap(o, p, c), Growth |-> Growth(o, p, c),
   ShrinkPost |-> ShrinkPost(o, p, c), CallbackPanicOK |-> CallbackPanicOK(o, p, c, tx1), TextOnly |-> TextOnly(c, a)]
Failing(o, p, c, a, tx0, tx1) ==
  LET tb == PredTable(o, p, c, a, tx0, tx1) IN {n \in DOMAIN tb : ~tb[n]}

\* antecedents, for vacuity accounting: which predicates were exercised non-trivially by this step
Exercised(o, p, c) ==
  {n \in {"RejectedIsNoop", "FailAtomic", "SizeSafe", "CloneCheap", "CtorStorage", "InlineEdit", "StaticBorrow",
          "WithCap", "ReservePost", "NoReallocInCap", "Growth", "ShrinkPost", "CallbackPanicOK", "Isolation",
          "NoResizeShared", "TextOnly", "TextOnlySame"} :
     CASE n = "RejectedIsNoop" -> c.cls = "panic" /\ c.msg = "index"
       [] n = "FailAtomic" -> c.inj
       [] n = "SizeSafe" -> c.op \in SizedOps /\ Failed(c)
       [] n = "CloneCheap" -> c.op \in CloneOps
       [] n = "CtorStorage" -> c.op \in TextCtors
       [] n = "InlineEdit" -> c.op \in EditOps /\ o.hd[T(c)].k = "I"
       [] n = "StaticBorrow" -> c.op = "from_static" \/ o.hd[T(c)].k = "S" \/ (c.op \in CloneOps /\ o.hd[c.g].k = "S")
       [] n = "WithCap" -> c.op = "with_capacity"
       [] n = "ReservePost" -> c.op = "reserve" /\ c.cls = "ok"
       [] n = "NoReallocInCap" -> c.op \in AppendOps /\ c.cls = "ok" /\ Exclusive(o, T(c)) /\ o.hd[T(c)].len + Len(c.s) <= o.hd[T(c)].cap
       [] n = "Growth" -> c.op \in (AppendOps \cup {"reserve"}) /\ c.cls = "ok" /\ c.dA + c.dR > 0 /\ p.hd[T(c)].k = "H"
       [] n = "ShrinkPost" -> c.op = "shrink_to" /\ o.hd[T(c)].k = "H"
       [] n = "CallbackPanicOK" -> c.cls = "panic" /\ c.msg = "callback"
       [] n = "TextOnly" -> c.op = "compare"
       [] n = "TextOnlySame" -> c.op = "compare" /\ o.hd[T(c)].text = o.hd[c.g].text
                                 /\ (o.hd[T(c)].k # o.hd[c.g].k \/ o.hd[T(c)].cap # o.hd[c.g].cap \/ o.hd[T(c)].rc # o.hd[c.g].rc)
       [] n = "Isolation" -> \E g \in Live(o) \ {T(c)} : o.hd[g].k \in {"H", "S"} /\ o.hd[T(c)].k = o.hd[g].k /\ o.hd[g].pid = o.hd[T(c)].pid
       [] n = "NoResizeShared" -> \E b \in PB : o.blk[b] > 0 /\ Holders(o, b) \ {T(c)} # {} /\ T(c) \in Holders(o, b)
       [] OTHER -> FALSE}
=============================================================================
