CONSTANTS
  MaxLen8 = 5
  MaxLen16 = 6
  Mode = "u16"
SPECIFICATION Spec
INVARIANTS Emit Sane
CHECK_DEADLOCK FALSE
