------------------------------- MODULE Heap -------------------------------
(* The buffer protocol one level below the string model: what the crate may do
   to a heap block and its reference-count word, whatever public call it is in.

     alloc      a fresh block starts with count 1 (its creator owns it)
     rmw+/rmw-  the count changes by one; the value the code got back is the
                one the protocol tracks; it never goes below zero
     write      bytes of a block are written only by its sole owner (count 1):
                a block other handles can read (count > 1) is immutable  [C02]
     realloc    only the sole owner resizes / moves a block               [C02]
     dealloc    a block is given back once, by its last owner: its count is 0
                (decremented to zero) or 1 (the sole owner frees without
                touching the count), never above                          [C03]
     any access only while the block is live (no use after free)          [C03]
     end        every block has been given back (no leak)                 [C03]

   The module is a trace monitor (pipeline E, code -> spec): it consumes the
   event log of an execution of the REAL crate - recorded by the hook layer
   while the repository's own test-suite (suite/tests/repo.rs) or a driver
   runs - steps the protocol state with every event and prints a line
   "HEAP {json}" for every event the protocol does not allow.  The traces are
   those of single-threaded runs (one test at a time): events are in program
   order.  Findings are classified:
     fatal   shared-write, shared-realloc, use-after-free, double-free,
             underflow, free-while-referenced, leak, shim:* (the allocator
             layer's own judgement: canary, bad layout, write after free)
     drift   resurrect (count 0 -> 1), write-unowned (write at count 0),
             log:count (the count word changed without an event): shapes the
             protocol does not expect but which break no property by
             themselves; reported as MODEL-DRIFT, never as a violation.      *)
EXTENDS Naturals, Sequences, FiniteSets, TLC, Json, IOUtils

Ev == ndJsonDeserialize(IOEnv.TRACE)

VARIABLES l,        \* next record
          cnt,      \* live block id -> value of its reference-count word
          run,      \* number of the current execution
          nfind     \* findings so far
vars == <<l, cnt, run, nfind>>

Live == DOMAIN cnt
Empty == [b \in {} |-> 0]
Without(f, b) == [x \in DOMAIN f \ {b} |-> f[x]]
With(f, b, v) == [x \in DOMAIN f \cup {b} |-> IF x = b THEN v ELSE f[x]]

HasD(e) == "d" \in DOMAIN e /\ e.d

\* the protocol's judgement of one event: "ok" or the finding
Judge(e) ==
  LET b == e.b IN
  CASE e.k = "alloc" /\ e.o = "fail" -> "ok"
    [] e.k = "alloc"                 -> IF b \in Live THEN "log:alloc-of-live-id" ELSE "ok"
    [] b = 0                         -> "ok"       \* inline words, static text, the caller's memory
    [] e.k = "dealloc" /\ e.o = "double" -> "double-free"
    [] HasD(e) \/ b \notin Live      -> "use-after-free:" \o e.k
    [] e.k = "rmw+"    -> IF e.v # cnt[b] THEN "log:count" ELSE IF e.v = 0 THEN "resurrect" ELSE "ok"
    [] e.k = "rmw-"    -> IF e.v # cnt[b] THEN "log:count" ELSE IF e.v = 0 THEN "underflow" ELSE "ok"
    [] e.k = "load"    -> IF e.v # cnt[b] THEN "log:count" ELSE "ok"
    [] e.k = "write"   -> IF e.v = 0 THEN "ok" ELSE IF cnt[b] > 1 THEN "shared-write" ELSE IF cnt[b] = 0 THEN "write-unowned" ELSE "ok"
    [] e.k = "realloc" -> IF cnt[b] > 1 THEN "shared-realloc" ELSE "ok"
    [] e.k = "dealloc" -> IF cnt[b] > 1 THEN "free-while-referenced" ELSE "ok"
    [] OTHER           -> "ok"

\* the protocol state after the event (resynchronised with what the code saw where it deviates)
Step(e) ==
  LET b == e.b IN
  CASE e.k = "alloc" /\ e.o = "fail" -> cnt
    [] e.k = "alloc"                 -> With(cnt, b, 1)
    [] b = 0 \/ HasD(e)              -> cnt
    [] e.k = "rmw+"                  -> With(cnt, b, e.v + 1)
    [] e.k = "rmw-"                  -> With(cnt, b, IF e.v > 0 THEN e.v - 1 ELSE 0)
    [] e.k = "load"                  -> With(cnt, b, e.v)
    [] e.k = "dealloc" /\ e.o = ""   -> Without(cnt, b)
    [] OTHER                         -> cnt

Report(kind, e) == PrintT("HEAP " \o ToJson([run |-> run, l |-> l, err |-> kind, e |-> e]))

HInit == l = 1 /\ cnt = Empty /\ run = 0 /\ nfind = 0

HNext ==
  /\ l <= Len(Ev) /\ l' = l + 1
  /\ LET e == Ev[l] IN
     CASE e.ev = "init" -> cnt' = Empty /\ run' = run + 1 /\ UNCHANGED nfind
       [] e.ev = "e" ->
            LET j == Judge(e) IN
            /\ cnt' = Step(e) /\ UNCHANGED run
            /\ nfind' = nfind + (IF j = "ok" THEN 0 ELSE 1)
            /\ (j # "ok" => Report(j, e))
       [] e.ev = "end" ->
            /\ UNCHANGED <<cnt, run>>
            /\ nfind' = nfind + Cardinality(Live) + Len(e.shim)
            /\ \A b \in Live : Report("leak", [b |-> b, count |-> cnt[b]])
            /\ \A i \in 1..Len(e.shim) : Report("shim:" \o e.shim[i], [b |-> 0])
       [] OTHER -> UNCHANGED <<cnt, run, nfind>>
HSpec == HInit /\ [][HNext]_vars

\* protocol invariants of the monitor's own state (cheap sanity; the judgement is in Judge)
CountsNat == \A b \in Live : cnt[b] \in Nat

HConsumed ==
  LET d == TLCGet("stats").diameter IN
  IF d - 1 = Len(Ev) THEN PrintT("CONSUMED " \o ToString(Len(Ev)))
  ELSE Print(<<"STUCK at record", d, Ev[d]>>, FALSE)
=============================================================================
