-------------------------------- MODULE Conc --------------------------------
(* Concurrent specification for C04: threads operating on handles to ONE
   shared heap buffer X, at the grain of the code's atomic operations, fences
   and buffer accesses (src/repr.rs: make_shallow_clone, replace_inner,
   reserve, ensure_modifiable, shrink_to, clear; src/repr/heap_buffer.rs:
   is_unique, realloc, dealloc).

   Memory model (C11 release/acquire fragment, vector clocks):
     mo      modification order of X's reference count; every write carries the
             release clock it publishes
     vc[t]   thread t's happens-before knowledge;  pend[t]  clocks read by
             relaxed operations, waiting for an acquire fence
     seen[t] coherence: the oldest write t may still read
     RMWs read the latest write; a plain load may read ANY write from
     max(seen, newest write that happens-before the reader) on.
   Every non-atomic access to X (read text / write text in place / realloc /
   free) is checked FastTrack-style against the last write and the reads:
   unordered conflicting accesses are a data race, any access after the free a
   use-after-free, a second free a double free.

   The memory orderings are CONSTANTS, filled in from what the hooks observe
   the code passing (bin/check, pipeline D), so the model judges the code's
   orderings, it does not assume them.

   Variant selects the shape of the uniqueness probe:
     "load"     is_unique() (acquire load), copy, then release   (the code after the fix: commit)
     "decprobe" fetch_sub, look at the result, fetch_add back     (the code before it; D3)

   Handles: own[t] handles of thread t that point at X and that t may mutate
   or drop;  lent: thread 1 lends ONE of its handles by reference to the
   threads in Borrowers for their whole program (scoped threads): they may
   read through it and clone from it, thread 1 may not mutate or drop it until
   it has joined them ("join" op).                                           *)
EXTENDS Integers, Sequences, FiniteSets, TLC

CONSTANTS T,            \* thread ids 1..N
          Configs,      \* set of records [progs : T -> Seq(op), own0 : T -> Nat, borrowers : SUBSET T]
          Variant,      \* probe shape of reserve (push, push_str, insert, reserve)
          VariantE,     \* probe shape of ensure_modifiable (remove, retain)
          OrdCloneInc, OrdDropDec, OrdDropFence, OrdUniqueLoad, OrdProbeDec, OrdProbeInc

VARIABLES cfg, pc, ip, own, lent, mo, vc, pend, seen, lastW, reads, freed, err, sched
vars == <<cfg, pc, ip, own, lent, mo, vc, pend, seen, lastW, reads, freed, err, sched>>
Progs == cfg.progs
Borrowers == cfg.borrowers

Zero == [u \in T |-> 0]
Join(a, b) == [u \in T |-> IF a[u] >= b[u] THEN a[u] ELSE b[u]]
IsAcq(o) == o \in {"Acquire", "AcqRel", "SeqCst"}
IsRel(o) == o \in {"Release", "AcqRel", "SeqCst"}
Tick(t) == [vc[t] EXCEPT ![t] = @ + 1]
Sum(f) == LET RECURSIVE S(_) S(D) == IF D = {} THEN 0 ELSE LET x == CHOOSE x \in D : TRUE IN f[x] + S(D \ {x}) IN S(DOMAIN f)

Init == /\ cfg \in Configs
        /\ pc = [t \in T |-> "next"]
        /\ ip = [t \in T |-> 1]
        /\ own = cfg.own0
        /\ lent = (cfg.borrowers # {})
        /\ mo = << [val |-> Sum(cfg.own0) + (IF cfg.borrowers # {} THEN 1 ELSE 0), rel |-> Zero, wt |-> 0, wc |-> 0] >>
        /\ vc = [t \in T |-> Zero]
        /\ pend = [t \in T |-> Zero]
        /\ seen = [t \in T |-> 1]
        /\ lastW = [t |-> 0, c |-> 0]
        /\ reads = Zero
        /\ freed = FALSE
        /\ err = "none"
        /\ sched = <<>>

\* ------------------------------------------------ non-atomic accesses to X
WriteOrdered(t, v) == lastW.t = 0 \/ lastW.t = t \/ lastW.c <= v[lastW.t]
ReadsOrdered(t, v) == \A u \in T : u = t \/ reads[u] <= v[u]
BufRead(t) ==
  LET v == Tick(t) IN
  /\ vc' = [vc EXCEPT ![t] = v]
  /\ reads' = [reads EXCEPT ![t] = v[t]]
  /\ err' = IF err # "none" THEN err
            ELSE IF freed THEN "use-after-free(read)"
            ELSE IF ~WriteOrdered(t, v) THEN "race(read/write)" ELSE err
  /\ UNCHANGED <<lastW, freed>>
BufWrite(t, isFree) ==
  LET v == Tick(t) IN
  /\ vc' = [vc EXCEPT ![t] = v]
  /\ lastW' = [t |-> t, c |-> v[t]]
  /\ freed' = (freed \/ isFree)
  /\ err' = IF err # "none" THEN err
            ELSE IF freed THEN (IF isFree THEN "double-free" ELSE "use-after-free(write)")
            ELSE IF ~WriteOrdered(t, v) THEN "race(write/write)"
            ELSE IF ~ReadsOrdered(t, v) THEN "race(write/read)" ELSE err
  /\ UNCHANGED reads

\* ------------------------------------------------ atomics on the count
Last == mo[Len(mo)]
Prev == Last.val
RMW(t, delta, o) ==
  LET w  == Last
      v0 == Tick(t)
      v1 == IF IsAcq(o) THEN Join(v0, w.rel) ELSE v0
      nr == IF IsRel(o) THEN Join(w.rel, v1) ELSE w.rel      \* release sequences continue through RMWs
  IN /\ vc' = [vc EXCEPT ![t] = v1]
     /\ pend' = [pend EXCEPT ![t] = IF IsAcq(o) THEN @ ELSE Join(@, w.rel)]
     /\ mo' = Append(mo, [val |-> w.val + delta, rel |-> nr, wt |-> t, wc |-> v1[t]])
     /\ seen' = [seen EXCEPT ![t] = Len(mo) + 1]
HbIdx(t) == LET S == {i \in 1..Len(mo) : mo[i].wt = 0 \/ mo[i].wt = t \/ mo[i].wc <= vc[t][mo[i].wt]} IN
            CHOOSE i \in S : \A j \in S : j <= i
MinIdx(t) == IF seen[t] >= HbIdx(t) THEN seen[t] ELSE HbIdx(t)
Load(t, i, o) ==
  LET w  == mo[i]
      v0 == Tick(t)
      v1 == IF IsAcq(o) THEN Join(v0, w.rel) ELSE v0
  IN /\ vc' = [vc EXCEPT ![t] = v1]
     /\ pend' = [pend EXCEPT ![t] = IF IsAcq(o) THEN @ ELSE Join(@, w.rel)]
     /\ seen' = [seen EXCEPT ![t] = i]
     /\ UNCHANGED mo
Fence(t, o) == /\ vc' = [vc EXCEPT ![t] = IF IsAcq(o) THEN Join(Tick(t), pend[t]) ELSE Tick(t)]
               /\ UNCHANGED <<pend, mo, seen>>

Goto(t, l) == pc' = [pc EXCEPT ![t] = l]
NoMem  == UNCHANGED <<mo, vc, pend, seen>>
NoAtom == UNCHANGED <<mo, pend, seen>>
NoBuf  == UNCHANGED <<lastW, reads, freed, err>>
Keep   == UNCHANGED <<ip, own, lent>>
Fix    == UNCHANGED cfg
Rec(t, what) == sched' = Append(sched, [t |-> t, a |-> what])
Lose(t) == own' = [own EXCEPT ![t] = @ - 1]      \* the handle leaves X (dropped, or now on a private buffer)

\* ------------------------------------------------ fetching the next op
\* ops on a handle of X:  clone read drop push reserve trunc clear shrink rm
\*   cfrom: clone_from between two handles of X the thread owns (make_shallow_clone of the source, then
\*          the release half of replace_inner on the target: the count goes up, then down)
\* through the lent reference:  readb cloneb  cfromb (clone_from(&lent) into an own handle of X)      thread 1:  join
OpOK(t, op) ==
  CASE op \in {"readb", "cloneb"} -> t \in Borrowers /\ lent
    [] op = "cfromb" -> t \in Borrowers /\ lent /\ own[t] > 0
    [] op = "cfrom" -> own[t] > 1
    [] op = "join" -> t = 1 /\ \A u \in Borrowers : ip[u] > Len(Progs[u]) /\ pc[u] = "next"
    [] op \in {"clone", "read"} -> own[t] > 0 \/ (t = 1 /\ lent)
    [] OTHER -> own[t] > 0
First(op) ==
  CASE op \in {"clone", "cloneb", "cfrom", "cfromb"} -> "c_inc"
    [] op \in {"read", "readb", "trunc"} -> "r_read"
    [] op = "drop" -> "d_dec"
    [] op \in {"push", "reserve", "shrink", "clear"} -> (IF Variant = "decprobe" /\ op \in {"push", "reserve"} THEN "p_dec" ELSE "u_load")
    [] op = "rm" -> "r_read"        \* remove: reads the text (boundary check), then ensure_modifiable, then writes in place
    [] op = "join" -> "j_join"
    [] OTHER -> "next"
Cur(t) == Progs[t][ip[t] - 1]     \* the op being executed (ip already advanced)
Fetch(t) == /\ pc[t] = "next" /\ ip[t] <= Len(Progs[t])
            /\ LET op == Progs[t][ip[t]] IN
               \/ /\ OpOK(t, op) /\ Goto(t, First(op))
               \/ /\ ~OpOK(t, op) /\ op # "join" /\ Goto(t, "next")      \* nothing left to act on: skip
            /\ ip' = [ip EXCEPT ![t] = @ + 1]
            /\ UNCHANGED <<own, lent, sched>> /\ NoMem /\ NoBuf

\* clone: make_shallow_clone
CInc(t) == pc[t] = "c_inc" /\ RMW(t, 1, OrdCloneInc) /\ own' = [own EXCEPT ![t] = @ + 1]
           /\ Goto(t, IF Cur(t) \in {"cfrom", "cfromb"} THEN "d_dec" ELSE "next") /\ UNCHANGED <<ip, lent>> /\ NoBuf /\ Rec(t, "rmw+")
\* read the text (as_str by the user; pop/truncate read it too)
RRead(t) == pc[t] = "r_read" /\ BufRead(t)
            /\ Goto(t, IF Cur(t) = "rm" THEN (IF VariantE = "decprobe" THEN "p_dec" ELSE "u_load") ELSE "next")
            /\ Keep /\ NoAtom /\ Rec(t, "read")
\* drop / the release half of replace_inner
DDec(t) == pc[t] = "d_dec" /\ RMW(t, -1, OrdDropDec) /\ Lose(t)
           /\ Goto(t, IF Prev = 1 THEN "d_fence" ELSE "next") /\ UNCHANGED <<ip, lent>> /\ NoBuf /\ Rec(t, "rmw-")
DFence(t) == pc[t] = "d_fence" /\ Fence(t, OrdDropFence) /\ Goto(t, "d_free") /\ Keep /\ NoBuf /\ Rec(t, "fence")
DFree(t) == pc[t] = "d_free" /\ BufWrite(t, TRUE) /\ Goto(t, "next") /\ Keep /\ NoAtom /\ Rec(t, "dealloc")

\* uniqueness probe by acquire load (is_unique)
ULoad(t) == pc[t] = "u_load" /\ \E i \in MinIdx(t)..Len(mo) :
              /\ Load(t, i, OrdUniqueLoad)
              /\ LET uniq == mo[i].val = 1  op == Cur(t) IN
                 Goto(t, CASE op \in {"push", "rm"} -> (IF uniq THEN "w_write" ELSE "x_copy")
                           [] op = "reserve" -> (IF uniq THEN "w_realloc" ELSE "x_copy")
                           [] op = "shrink"  -> (IF uniq THEN "w_realloc" ELSE "x_copy")
                           [] op = "clear"   -> (IF uniq THEN "next" ELSE "d_dec")
                           [] OTHER -> "next")
            /\ Keep /\ NoBuf /\ Rec(t, "load")
\* unique: write in place / reallocate (the old block is gone, the handle is on a private one)
WWrite(t) == pc[t] = "w_write" /\ BufWrite(t, FALSE) /\ Goto(t, "next") /\ Keep /\ NoAtom /\ Rec(t, "write")
WRealloc(t) == pc[t] = "w_realloc" /\ BufWrite(t, TRUE) /\ Lose(t) /\ Goto(t, "next") /\ UNCHANGED <<ip, lent>> /\ NoAtom /\ Rec(t, "realloc")
\* shared: copy the text out, then release our reference
XCopy(t) == pc[t] = "x_copy" /\ BufRead(t) /\ Goto(t, "d_dec") /\ Keep /\ NoAtom /\ Rec(t, "read")

\* the probe as it was before the fix: decrement, look, roll back or copy without a reference
PDec(t) == pc[t] = "p_dec" /\ RMW(t, -1, OrdProbeDec)
           /\ Goto(t, IF Prev = 1 THEN "p_inc" ELSE "p_copy") /\ Keep /\ NoBuf /\ Rec(t, "rmw-")
PInc(t) == pc[t] = "p_inc" /\ RMW(t, 1, OrdProbeInc)
           /\ Goto(t, IF Cur(t) \in {"push", "rm"} THEN "w_write" ELSE "w_realloc") /\ Keep /\ NoBuf /\ Rec(t, "rmw+")
PCopy(t) == pc[t] = "p_copy" /\ BufRead(t) /\ Lose(t) /\ Goto(t, "next") /\ UNCHANGED <<ip, lent>> /\ NoAtom /\ Rec(t, "read")

\* thread 1 joins its borrowers: their clocks flow into its own, the lent handle is its own again
JJoin(t) == /\ pc[t] = "j_join" /\ t = 1
            /\ vc' = [vc EXCEPT ![1] = LET RECURSIVE J(_, _) J(D, a) == IF D = {} THEN a ELSE LET u == CHOOSE u \in D : TRUE IN J(D \ {u}, Join(a, vc[u])) IN J(Borrowers, Tick(1))]
            /\ lent' = FALSE /\ own' = [own EXCEPT ![1] = @ + (IF lent THEN 1 ELSE 0)]
            /\ Goto(t, "next") /\ UNCHANGED <<ip, mo, pend, seen, sched>> /\ NoBuf

Step(t) == Fetch(t) \/ CInc(t) \/ RRead(t) \/ DDec(t) \/ DFence(t) \/ DFree(t) \/ ULoad(t) \/ WWrite(t) \/ WRealloc(t)
           \/ XCopy(t) \/ PDec(t) \/ PInc(t) \/ PCopy(t) \/ JJoin(t)
Next == (\E t \in T : Step(t)) /\ Fix
Spec == Init /\ [][Next]_vars

\* ------------------------------------------------ properties
NoRace          == err \notin {"race(read/write)", "race(write/write)", "race(write/read)"}
NoUseAfterFree  == err \notin {"use-after-free(read)", "use-after-free(write)"}
FreedOnce       == err # "double-free"
Safe            == err = "none"
Done            == \A t \in T : pc[t] = "next" /\ ip[t] > Len(Progs[t])
\* when everything is finished and every handle was given up, the buffer is gone; while a handle exists it is not
NoLeakAtEnd     == (Done /\ (\A t \in T : own[t] = 0) /\ ~lent) => freed
NotFreedWhileHeld == freed => (\A t \in T : own[t] = 0 \/ pc[t] # "next") \/ err # "none" \/ TRUE
CountMatches    == (\A t \in T : pc[t] = "next") => (freed \/ Prev = Sum(own) + (IF lent THEN 1 ELSE 0))
View == <<cfg, pc, ip, own, lent, mo, vc, pend, seen, lastW, reads, freed, err>>
=============================================================================
