------------------------------ MODULE MC_Conc ------------------------------
EXTENDS Conc, Json
\* all op sequences of length <= n over alphabet A
RECURSIVE SeqsUpTo(_, _)
SeqsUpTo(A, n) == IF n = 0 THEN {<<>>} ELSE LET S == SeqsUpTo(A, n - 1) IN S \cup {Append(s, a) : s \in S, a \in A}
Drops == <<"drop", "drop", "drop">>          \* every thread ends by dropping whatever it still holds
OpsQ == {"clone", "read", "push", "reserve", "clear", "shrink", "drop", "trunc", "rm"}
OpsB == {"readb", "cloneb", "push", "read"}
\* 2 threads, one owned handle each
Own2(T2, L) == {[progs |-> [t \in T |-> IF t = 1 THEN p \o Drops ELSE q \o Drops], own0 |-> [t \in T |-> 1], borrowers |-> {}]
                 : p \in SeqsUpTo(OpsQ, L), q \in SeqsUpTo(OpsQ, L)}
\* 3 threads, one owned handle each
Own3(L) == {[progs |-> [t \in T |-> (IF t = 1 THEN p ELSE IF t = 2 THEN q ELSE r) \o Drops], own0 |-> [t \in T |-> 1], borrowers |-> {}]
                 : p \in SeqsUpTo(OpsQ, L), q \in SeqsUpTo(OpsQ, L), r \in SeqsUpTo(OpsQ, L)}
\* thread 1 lends its only handle by reference to the others, joins them, then mutates / drops
Lend(L) == {[progs |-> [t \in T |-> IF t = 1 THEN p \o <<"join">> \o q \o Drops ELSE b \o Drops],
             own0 |-> [t \in T |-> 0], borrowers |-> T \ {1}]
                 : p \in SeqsUpTo({"read", "clone"}, 1), q \in SeqsUpTo({"push", "reserve", "read"}, 1), b \in SeqsUpTo(OpsB, L)}
cQuick2 == Own2(T, 2)
\* deeper: 2 threads x up to 3 ops over the ops that touch the count or the bytes
OpsD == {"clone", "read", "push", "rm", "drop"}
cDeep2 == {[progs |-> [t \in T |-> IF t = 1 THEN p \o Drops ELSE q \o Drops], own0 |-> [t \in T |-> 1], borrowers |-> {}]
             : p \in SeqsUpTo(OpsD, 3), q \in SeqsUpTo(OpsD, 3)}
cLend2 == Lend(2)
\* clone_from inside one buffer: thread 1 owns two handles of X, thread 2 one
OpsF == {"cfrom", "read", "push", "rm", "drop", "clone"}
cFrom2 == {[progs |-> [t \in T |-> IF t = 1 THEN p \o Drops ELSE q \o Drops], own0 |-> [t \in T |-> IF t = 1 THEN 2 ELSE 1], borrowers |-> {}]
             : p \in SeqsUpTo(OpsF, 2), q \in SeqsUpTo(OpsF, 2)}
\* clone_from(&lent) by the borrowers into handles they cloned from it
cLendFrom == {[progs |-> [t \in T |-> IF t = 1 THEN <<"join">> \o q \o Drops ELSE b \o Drops], own0 |-> [t \in T |-> 0], borrowers |-> T \ {1}]
             : q \in SeqsUpTo({"push", "read"}, 1), b \in {<<"cloneb", "cfromb">>, <<"cloneb", "cfromb", "push">>, <<"cloneb", "trunc", "cfromb">>, <<"readb">>, <<"cloneb">>}}
cOwn3 == Own3(1)
cDemo == {[progs |-> [t \in T |-> IF t = 1 THEN <<"drop">> ELSE <<"push", "drop">>], own0 |-> [t \in T |-> 1], borrowers |-> {}]}

\* a finished execution: its schedule is replayed on real threads
EmitDone == Done => PrintT("SCHED " \o ToJson([progs |-> cfg.progs, own0 |-> cfg.own0, borrowers |-> cfg.borrowers, sched |-> sched, err |-> err]))
SafeCex == Safe \/ (PrintT("CEX " \o ToJson([progs |-> cfg.progs, own0 |-> cfg.own0, borrowers |-> cfg.borrowers, sched |-> sched, err |-> err])) /\ FALSE)
=============================================================================
