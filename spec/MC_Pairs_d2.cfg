CONSTANTS
  NH = 3
  MaxBufs = 4
  Statics <- cStatics3
  OpKinds <- cOpsPairs
  StrArgs <- cStrS2
  CharArgs <- cChars
  Caps = {0}
  IdxMode = "few"
  RetainPats <- cRetain
  ItemSeqs <- cItems
  Hints = {0}
  RawArgs <- cRawNone
  U16Args <- cU16None
  FailMode = 0
  PanicMode = 0
  Seeds <- cSeedsPairs
  MaxSteps = 2
SPECIFICATION Spec
VIEW View
INVARIANTS ModelTypeOK NoUninitRead OwnInv
PROPERTIES AllSteps Refines
ACTION_CONSTRAINT Emit
CHECK_DEADLOCK FALSE
