----------------------------- MODULE StrModel -----------------------------
(* What std::string::String does for the same calls, on plain byte
   sequences.  It never looks at handles, buffers or capacities: it is the
   oracle the representation is checked against (C01, C07, C18).
   txt[h] is the text of slot h, or DeadT for a dead slot.                  *)
EXTENDS Integers, Sequences, Utf8, Codec

DeadT == <<-1>>

SDecision(x, i) == IF i <= Len(x) THEN x[i] ELSE 1
RECURSIVE SRetain(_, _, _, _)
SRetain(cs, i, x, acc) ==
  IF i > Len(cs) THEN [t |-> acc, p |-> FALSE]
  ELSE LET d == SDecision(x, i) IN
       IF d = 2 THEN [t |-> acc, p |-> TRUE]
       ELSE SRetain(cs, i + 1, x, IF d = 1 THEN acc \o cs[i] ELSE acc)

\* bytewise lexicographic order (= str's Ord): 0 less, 1 equal, 2 greater
RECURSIVE LexCmp(_, _)
LexCmp(a, b) ==
  IF a = <<>> THEN (IF b = <<>> THEN 1 ELSE 0)
  ELSE IF b = <<>> THEN 2
  ELSE IF Head(a) < Head(b) THEN 0 ELSE IF Head(a) > Head(b) THEN 2 ELSE LexCmp(Tail(a), Tail(b))
\* result of the "compare" observation: <<equal?, ordering, every derived observation consistent with the text>>
CmpVal(a, b) == << (IF a = b THEN 1 ELSE 0), LexCmp(a, b), 1 >>

\* result of a call on String: new texts, outcome class, returned value, panic kind
A(tx, cls, val, msg) == [txt |-> tx, cls |-> cls, val |-> val, msg |-> msg]
Same(txt, cls, val, msg) == A(txt, cls, val, msg)
Set(txt, h, t) == [txt EXCEPT ![h] = t]

Abs(txt, op, statics) ==
  LET t   == txt[op.h]
      len == Len(t) IN
  CASE op.op = "new"           -> A(Set(txt, op.h, <<>>), "ok", <<>>, "")
    [] op.op = "from_str"      -> A(Set(txt, op.h, op.s), "ok", <<>>, "")
    [] op.op = "from_static"   -> A(Set(txt, op.h, statics[op.g]), "ok", <<>>, "")
    [] op.op = "with_capacity" -> A(Set(txt, op.h, <<>>), "ok", <<>>, "")
    [] op.op = "from_char"     -> A(Set(txt, op.h, op.s), "ok", <<>>, "")
    [] op.op = "clone"         -> A(Set(txt, op.h, txt[op.g]), "ok", <<>>, "")
    [] op.op = "clone_from"    -> A(Set(txt, op.h, txt[op.g]), "ok", <<>>, "")
    [] op.op = "clone_ovf"     -> A(txt, "panic", <<>>, "rcoverflow")
    [] op.op = "drop"          -> A(Set(txt, op.h, DeadT), "ok", <<>>, "")
    [] op.op = "reserve"       -> A(txt, "ok", <<>>, "")
    [] op.op = "shrink_to"     -> A(txt, "ok", <<>>, "")
    [] op.op = "push_str"      -> A(Set(txt, op.h, t \o op.s), "ok", <<>>, "")
    [] op.op = "pop" ->
         IF len = 0 THEN A(txt, "none", <<>>, "")
         ELSE LET n == LastCharStart(t) IN A(Set(txt, op.h, SubSeq(t, 1, n)), "some", SubSeq(t, n + 1, len), "")
    [] op.op = "truncate" ->
         IF op.n >= len THEN A(txt, "ok", <<>>, "")
         ELSE IF ~IsBoundary(t, op.n) THEN A(txt, "panic", <<>>, "index")
         ELSE A(Set(txt, op.h, SubSeq(t, 1, op.n)), "ok", <<>>, "")
    [] op.op = "clear"         -> A(Set(txt, op.h, <<>>), "ok", <<>>, "")
    [] op.op = "remove" ->
         IF op.n >= len \/ ~IsBoundary(t, op.n) THEN A(txt, "panic", <<>>, "index")
         ELSE LET w == Min(WidthOfLead(t[op.n + 1]), len - op.n) IN
              A(Set(txt, op.h, SubSeq(t, 1, op.n) \o SubSeq(t, op.n + w + 1, len)), "ok", SubSeq(t, op.n + 1, op.n + w), "")
    [] op.op = "insert_str" ->
         IF ~IsBoundary(t, op.n) THEN A(txt, "panic", <<>>, "index")
         ELSE A(Set(txt, op.h, SubSeq(t, 1, op.n) \o op.s \o SubSeq(t, op.n + 1, len)), "ok", <<>>, "")
    [] op.op = "retain" ->
         LET g == SRetain(Chars(t), 1, op.x, <<>>) IN
         IF g.p THEN A(Set(txt, op.h, g.t), "panic", <<>>, "callback") ELSE A(Set(txt, op.h, g.t), "ok", <<>>, "")
    [] op.op = "extend" ->
         IF op.m = 0 THEN A(Set(txt, op.h, t \o Concat(op.x)), "ok", <<>>, "")
         ELSE A(Set(txt, op.h, t \o Concat(SubSeq(op.x, 1, op.m - 1))), "panic", <<>>, "callback")
    [] op.op = "collect" ->
         IF op.m = 0 THEN A(Set(txt, op.h, Concat(op.x)), "ok", <<>>, "")
         ELSE A(txt, "panic", <<>>, "callback")
    [] op.op = "compare" -> A(txt, "ok", CmpVal(txt[op.h], txt[op.g]), "")
    [] op.op = "from_utf8_lossy" -> A(Set(txt, op.h, Lossy8(op.s)), "ok", <<>>, "")
    [] op.op = "from_utf16" -> LET d == Dec16(op.x) IN IF d.ok THEN A(Set(txt, op.h, d.text), "ok", <<>>, "") ELSE A(txt, "err", <<>>, "utf16")
    [] op.op = "from_utf16_lossy" -> A(Set(txt, op.h, Dec16(op.x).lossy), "ok", <<>>, "")
    [] op.op = "display" ->      \* to_string() of the same value (an erroring Display: no string)
         IF op.m > 0 /\ (op.n = 0 \/ op.m < op.n) THEN A(txt, "panic", <<>>, "callback")
         ELSE IF op.n > 0 THEN A(txt, (IF op.t = 1 THEN "err" ELSE "panic"), <<>>, "fmt")
         ELSE A(Set(txt, op.h, Concat(op.x)), "ok", <<>>, "")
    [] OTHER -> A(txt, "unknown", <<>>, "")

IterOps == {"extend", "collect"}
SFailed(c) == (c.cls = "err" /\ c.msg = "reserve") \/ (c.cls = "panic" /\ c.msg = "reserve")
\* the oracle after a call c (op + observed outcome): a failed allocation
\* leaves every text as it was (iterator-driven calls: the observed prefix)
NextTxt(txt, c, a, obsText) ==
  IF SFailed(c)
  THEN IF c.op = "extend" /\ obsText \in {txt[c.h] \o Concat(SubSeq(c.x, 1, j)) : j \in 0..Len(c.x)}
       THEN Set(txt, c.h, obsText) ELSE txt
  ELSE a.txt
\* texts an iterator-driven call may legitimately leave behind when an
\* allocation fails between items: the old text plus the first j items
PrefixTexts(t0, items) == {t0 \o Concat(SubSeq(items, 1, j)) : j \in 0..Len(items)}
=============================================================================
