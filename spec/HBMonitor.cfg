CONSTANTS
  T = {0, 1, 2, 3}
  Configs = {}
  Variant = "load"
  VariantE = "load"
  OrdCloneInc = "Relaxed"
  OrdDropDec = "Release"
  OrdDropFence = "Acquire"
  OrdUniqueLoad = "Acquire"
  OrdProbeDec = "Release"
  OrdProbeInc = "Acquire"
SPECIFICATION HSpec
POSTCONDITION HConsumed
CHECK_DEADLOCK FALSE
