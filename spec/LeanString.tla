---------------------------- MODULE LeanString ----------------------------
(* Design model of lean_string's sequential API, written in the shape of the
   code (src/repr.rs, src/repr/heap_buffer.rs, src/repr/inline_buffer.rs,
   src/repr/static_buffer.rs, src/lib.rs), 64-bit layout.

   The whole state is one value  st = [hs, bufs]:
     hs[h]   the two words of handle slot h
               k = "D"  dead slot
               k = "I"  inline: w = the 16 raw bytes (byte 16 doubles as tag)
               k = "S"  static: id = which static text, len = handle-local length
               k = "H"  heap:   id = buffer id,         len = handle-local length
     bufs[b] a heap buffer: live, rc (reference count), cap, data (all cap
             bytes, stale tail included; -1 = never written)

   Do(st, op) is a pure function from a state and a public call to the next
   state and the call's observable result.  It is the single definition used
   by the exhaustive configurations (MC_*.tla), by the witness paths replayed
   on the real crate, and by the trace specification (Trace.tla).

   An op is a record [op, v, t, h, g, n, m, s, x, f]:
     op  the operation            v  entry-point variant (same action)
     t   1 = fallible try_ form   h  target slot       g  source slot / static id
     n,m integers (index, size, hint, panic position)
     s   a byte sequence          x  a sequence (items / decisions)
     f   the set of allocator requests of this call (1st, 2nd, ..) made to fail
   Sizes beyond the allocator limit are the symbolic classes BIG, TOOLONG and
   OVERFLOW (negative numbers), see DESIGN.md 2.5.                          *)
EXTENDS Integers, Sequences, FiniteSets, Utf8, Codec

CONSTANTS NH,        \* handle slots
          MaxBufs,   \* simultaneously live heap buffers
          Statics    \* sequence of 'static texts (static id = index)

MaxInline  == 16
HeaderSize == 16
BIG      == -1   \* AllocLimit < request <= 2^56-1 : accepted by the crate, refused by the allocator
TOOLONG  == -2   \* amortised request > 2^56-1      : refused by Capacity::new
OVERFLOW == -3   \* len + n > usize::MAX            : refused by checked_add
IsSym(n) == n < 0

H == 1..NH
B == 1..MaxBufs

Dead  == [k |-> "D", w |-> <<>>, id |-> 0, len |-> 0]
NoBuf == [live |-> FALSE, rc |-> 0, cap |-> 0, data |-> <<>>]
EmptySt == [hs |-> [h \in H |-> Dead], bufs |-> [b \in B |-> NoBuf]]

Zeros(n)   == [i \in 1..n |-> 0]
Pad(t, n)  == t \o [i \in 1..(n - Len(t)) |-> -1]
HeapRep(b, len)   == [k |-> "H", w |-> <<>>, id |-> b, len |-> len]
StaticRep(s, len) == [k |-> "S", w |-> <<>>, id |-> s, len |-> len]
NewBuf(t, cap)    == [live |-> TRUE, rc |-> 1, cap |-> cap, data |-> Pad(t, cap)]

\* ---------------------------------------------------------------- inline
\* Repr::len() for an inline value: (last_byte - 0xC0) wrapping, min 16
ILen(w) == LET lb == w[16] IN IF lb >= 192 /\ lb < 208 THEN lb - 192 ELSE 16
\* InlineBuffer::new: zero fill, tag, then the text (which overwrites the tag when len = 16)
InlineOf(t) ==
  LET n == Len(t) IN
  [k |-> "I", w |-> (IF n = 16 THEN t ELSE t \o Zeros(15 - n) \o <<192 + n>>), id |-> 0, len |-> 0]
\* InlineBuffer::set_len: the tag is written only below 16
ISetLen(w, n) == IF n < 16 THEN [w EXCEPT ![16] = 192 + n] ELSE w
\* overwrite bytes off+1 .. off+Len(s)
Overwrite(d, off, s) == [i \in 1..Len(d) |-> IF i > off /\ i <= off + Len(s) THEN s[i - off] ELSE d[i]]
\* the first Len(nt) bytes become nt, the rest keeps whatever was there
SetPrefix(d, nt) == nt \o SubSeq(d, Len(nt) + 1, Len(d))

\* ------------------------------------------------------ decoding a handle
RLen(r) == IF r.k = "I" THEN ILen(r.w) ELSE r.len
RText(r, bt) ==
  CASE r.k = "I" -> SubSeq(r.w, 1, ILen(r.w))
    [] r.k = "S" -> SubSeq(Statics[r.id], 1, r.len)
    [] r.k = "H" -> SubSeq(bt[r.id].data, 1, r.len)
    [] OTHER     -> <<>>
RCap(r, bt) ==
  CASE r.k = "I" -> MaxInline
    [] r.k = "S" -> r.len
    [] r.k = "H" -> bt[r.id].cap
    [] OTHER     -> 0
RLast(r) == CASE r.k = "I" -> r.w[16] [] r.k = "H" -> 208 [] r.k = "S" -> 209 [] OTHER -> 0

\* ------------------------------------------------ allocator-facing context
\* c = [bt, k, a, ra, d, ok, inj, nb]: buffer table, requests issued so far,
\* successful allocs / reallocs / deallocs, still-ok flag, "the allocator
\* refused a request" (injected or above the limit), id of the buffer allocated last
Ctx0(bt) == [bt |-> bt, k |-> 0, a |-> 0, ra |-> 0, d |-> 0, ok |-> TRUE, inj |-> FALSE, nb |-> 0]
FreeBufOf(bt) == CHOOSE b \in B : ~bt[b].live /\ \A y \in B : (~bt[y].live) => b <= y
HasFreeBuf(bt) == \E b \in B : ~bt[b].live

\* HeapBuffer::allocate_ptr after Capacity::new(cap)
Alloc(c, f, t, cap) ==
  IF cap = TOOLONG \/ cap = OVERFLOW THEN [c EXCEPT !.ok = FALSE]
  ELSE LET k1 == c.k + 1 IN
       IF cap = BIG \/ k1 \in f
       THEN [c EXCEPT !.ok = FALSE, !.k = k1, !.inj = TRUE]
       ELSE LET b == FreeBufOf(c.bt) IN
            [c EXCEPT !.k = k1, !.a = c.a + 1, !.nb = b, !.bt = [c.bt EXCEPT ![b] = NewBuf(t, cap)]]

Resize(d, n) == IF n <= Len(d) THEN SubSeq(d, 1, n) ELSE Pad(d, n)
\* HeapBuffer::realloc (unique buffer): same buffer id, new capacity
Realloc(c, f, b, newcap) ==
  IF newcap = TOOLONG \/ newcap = OVERFLOW THEN [c EXCEPT !.ok = FALSE]
  ELSE LET k1 == c.k + 1 IN
       IF newcap = BIG \/ k1 \in f
       THEN [c EXCEPT !.ok = FALSE, !.k = k1, !.inj = TRUE]
       ELSE [c EXCEPT !.k = k1, !.ra = c.ra + 1,
                      !.bt = [c.bt EXCEPT ![b] = [c.bt[b] EXCEPT !.cap = newcap, !.data = Resize(c.bt[b].data, newcap)]]]

\* Repr::replace_inner's release of the old value
Release(c, r) ==
  IF r.k # "H" THEN c
  ELSE IF c.bt[r.id].rc = 1
       THEN [c EXCEPT !.bt = [c.bt EXCEPT ![r.id] = NoBuf], !.d = c.d + 1]
       ELSE [c EXCEPT !.bt = [c.bt EXCEPT ![r.id] = [c.bt[r.id] EXCEPT !.rc = c.bt[r.id].rc - 1]]]

AddSz(len, n)   == IF IsSym(n) THEN n ELSE len + n
Amort(len, add) == IF IsSym(add) THEN add ELSE Max((len * 3) \div 2, len + add)

CR(c, r) == [c |-> c, r |-> r]
RECURSIVE LexOrd(_, _)
LexOrd(a, b) ==      \* 0 less, 1 equal, 2 greater (bytewise lexicographic)
  IF a = <<>> THEN (IF b = <<>> THEN 1 ELSE 0)
  ELSE IF b = <<>> THEN 2
  ELSE IF Head(a) < Head(b) THEN 0 ELSE IF Head(a) > Head(b) THEN 2 ELSE LexOrd(Tail(a), Tail(b))

\* ------------------------------------------------------------ Repr::reserve
ReserveF(c, f, r, add) ==
  LET len  == RLen(r)
      t    == RText(r, c.bt)
      need == AddSz(len, add)
      am   == Amort(len, add)
      copyOut == LET c1 == Alloc(c, f, t, am) IN
                 IF c1.ok THEN CR(Release(c1, r), HeapRep(c1.nb, len)) ELSE CR(c1, r)
  IN
  IF add = OVERFLOW THEN CR([c EXCEPT !.ok = FALSE], r)
  ELSE CASE r.k = "H" ->
              IF c.bt[r.id].rc = 1
              THEN IF (~IsSym(need)) /\ c.bt[r.id].cap >= need THEN CR(c, r)
                   ELSE CR(Realloc(c, f, r.id, am), r)
              ELSE copyOut
         [] r.k = "S" ->
              IF (~IsSym(need)) /\ need <= MaxInline THEN CR(c, InlineOf(t)) ELSE copyOut
         [] OTHER ->
              IF IsSym(need) \/ need > MaxInline THEN copyOut ELSE CR(c, r)

\* ------------------------------------------------- Repr::ensure_modifiable
EnsureModF(c, f, r) ==
  LET t == RText(r, c.bt) IN
  CASE r.k = "H" /\ c.bt[r.id].rc > 1 ->
          LET c1 == Alloc(c, f, t, Len(t)) IN
          IF c1.ok THEN CR(Release(c1, r), HeapRep(c1.nb, Len(t))) ELSE CR(c1, r)
    [] r.k = "S" ->
          IF Len(t) <= MaxInline THEN CR(c, InlineOf(t))
          ELSE LET c1 == Alloc(c, f, t, Len(t)) IN
               IF c1.ok THEN CR(c1, HeapRep(c1.nb, Len(t))) ELSE CR(c1, r)
    [] OTHER -> CR(c, r)

\* give an exclusively owned handle the text nt (bytes beyond it keep their old values)
SetText(cr, nt) ==
  LET r == cr.r  c == cr.c IN
  IF r.k = "I" THEN CR(c, [r EXCEPT !.w = ISetLen(SetPrefix(r.w, nt), Len(nt))])
  ELSE CR([c EXCEPT !.bt = [c.bt EXCEPT ![r.id] = [c.bt[r.id] EXCEPT !.data = SetPrefix(c.bt[r.id].data, nt)]]],
          [r EXCEPT !.len = Len(nt)])

\* Repr::push_str
PushF(c, f, r, s) ==
  IF s = <<>> THEN CR(c, r)
  ELSE LET len == RLen(r)
           cr  == ReserveF(c, f, r, Len(s)) IN
       IF ~cr.c.ok THEN cr
       ELSE IF cr.r.k = "I"
            THEN CR(cr.c, [cr.r EXCEPT !.w = ISetLen(Overwrite(cr.r.w, len, s), len + Len(s))])
            ELSE CR([cr.c EXCEPT !.bt = [cr.c.bt EXCEPT ![cr.r.id] =
                        [cr.c.bt[cr.r.id] EXCEPT !.data = Overwrite(cr.c.bt[cr.r.id].data, len, s)]]],
                    [cr.r EXCEPT !.len = len + Len(s)])

\* Repr::truncate_unchecked (64-bit): handle-local length only
TruncRep(r, n) == IF r.k = "I" THEN [r EXCEPT !.w = ISetLen(r.w, n)] ELSE [r EXCEPT !.len = n]

\* -------------------------------------------------------------- retain
\* x[i] : 0 drop, 1 keep, 2 the predicate panics; missing decisions keep
Decision(x, i) == IF i <= Len(x) THEN x[i] ELSE 1
RECURSIVE RetainGo(_, _, _, _)
RetainGo(cs, i, x, acc) ==   \* cs: chars, i: next char (1-based); result [t, panicked]
  IF i > Len(cs) THEN [t |-> acc, p |-> FALSE]
  ELSE LET d == Decision(x, i) IN
       IF d = 2 THEN [t |-> acc, p |-> TRUE]
       ELSE RetainGo(cs, i + 1, x, IF d = 1 THEN acc \o cs[i] ELSE acc)

\* -------------------------------------------------- iterator-driven pushes
\* pushes items i.. one by one; the m-th call of next() panics (m = 0: never)
RECURSIVE PushItems(_, _, _, _, _, _)
PushItems(c, f, r, items, i, m) ==   \* result [c, r, out, done] out: "ok" | "cb" | "reserve"
  IF m = i THEN [c |-> c, r |-> r, out |-> "cb", done |-> i - 1]
  ELSE IF i > Len(items) THEN [c |-> c, r |-> r, out |-> "ok", done |-> i - 1]
  ELSE LET cr == PushF(c, f, r, items[i]) IN
       IF ~cr.c.ok THEN [c |-> cr.c, r |-> cr.r, out |-> "reserve", done |-> i - 1]
       ELSE PushItems(cr.c, f, cr.r, items, i + 1, m)

\* --------------------------------------------------------------- results
Res(c, cls, val, msg) ==
  [cls |-> cls, val |-> val, msg |-> msg, dA |-> c.a, dR |-> c.ra, dD |-> c.d, inj |-> c.inj, nreq |-> c.k]
\* ReserveError surfaces as Err in the try_ forms and as a panic in the plain ones
ResErr(c, op) == IF op.t = 1 THEN Res(c, "err", <<>>, "reserve") ELSE Res(c, "panic", <<>>, "reserve")
Put(st, h, c, r) == [hs |-> [st.hs EXCEPT ![h] = r], bufs |-> c.bt]
Out(st, res) == [st |-> st, res |-> res]
\* a finished fallible step on target h: commit on success, leave the handle words on failure
Fin(st, op, cr, cls, val) ==
  IF cr.c.ok THEN Out(Put(st, op.h, cr.c, cr.r), Res(cr.c, cls, val, ""))
  ELSE Out(Put(st, op.h, cr.c, cr.r), ResErr(cr.c, op))

\* ------------------------------------------------------------------- Do
RECURSIVE Do(_, _)
Do(st, op) ==
  IF op.op = "from_utf16_lossy"
  THEN Do(st, [op EXCEPT !.op = "collect", !.v = "chars", !.n = (Len(op.x) + 1) \div 2, !.m = 0, !.x = Dec16Items(op.x, 1, TRUE).items])
  ELSE
  LET c0 == Ctx0(st.bufs)
      f  == op.f
      r  == st.hs[op.h]
      t  == RText(r, st.bufs)
      len == Len(t)
  IN
  CASE op.op = "new" -> Out(Put(st, op.h, c0, InlineOf(<<>>)), Res(c0, "ok", <<>>, ""))

    [] op.op = "from_str" ->
         IF Len(op.s) <= MaxInline THEN Out(Put(st, op.h, c0, InlineOf(op.s)), Res(c0, "ok", <<>>, ""))
         ELSE LET c1 == Alloc(c0, f, op.s, Len(op.s)) IN
              IF c1.ok THEN Out(Put(st, op.h, c1, HeapRep(c1.nb, Len(op.s))), Res(c1, "ok", <<>>, ""))
              ELSE Out(st, ResErr(c1, op))

    [] op.op = "from_static" ->
         LET s == Statics[op.g] IN
         IF Len(s) <= MaxInline THEN Out(Put(st, op.h, c0, InlineOf(s)), Res(c0, "ok", <<>>, ""))
         ELSE Out(Put(st, op.h, c0, StaticRep(op.g, Len(s))), Res(c0, "ok", <<>>, ""))

    [] op.op = "with_capacity" ->
         IF (~IsSym(op.n)) /\ op.n <= MaxInline THEN Out(Put(st, op.h, c0, InlineOf(<<>>)), Res(c0, "ok", <<>>, ""))
         ELSE LET c1 == Alloc(c0, f, <<>>, IF op.n = OVERFLOW THEN TOOLONG ELSE op.n) IN
              IF c1.ok THEN Out(Put(st, op.h, c1, HeapRep(c1.nb, 0)), Res(c1, "ok", <<>>, ""))
              ELSE Out(st, ResErr(c1, op))

    [] op.op = "from_char" -> Out(Put(st, op.h, c0, InlineOf(op.s)), Res(c0, "ok", <<>>, ""))

    [] op.op = "clone" ->      \* Repr::make_shallow_clone
         LET src == st.hs[op.g]
             bt  == IF src.k = "H" THEN [st.bufs EXCEPT ![src.id] = [st.bufs[src.id] EXCEPT !.rc = st.bufs[src.id].rc + 1]]
                    ELSE st.bufs IN
         Out([hs |-> [st.hs EXCEPT ![op.h] = src], bufs |-> bt], Res(c0, "ok", <<>>, ""))

    [] op.op = "clone_ovf" ->   \* make_shallow_clone when the count is already above isize::MAX (injected through the hook):
                                \* the increment is rolled back and the call panics; nothing else changes
         Out(st, Res(c0, "panic", <<>>, "rcoverflow"))

    [] op.op = "clone_from" -> \* make_shallow_clone(source), then replace_inner on the target
         LET src == st.hs[op.g]
             bt  == IF src.k = "H" THEN [st.bufs EXCEPT ![src.id] = [st.bufs[src.id] EXCEPT !.rc = st.bufs[src.id].rc + 1]]
                    ELSE st.bufs
             c1  == Release(Ctx0(bt), r) IN
         Out(Put(st, op.h, c1, src), Res(c1, "ok", <<>>, ""))

    [] op.op = "drop" ->
         LET c1 == Release(c0, r) IN Out(Put(st, op.h, c1, Dead), Res(c1, "ok", <<>>, ""))

    [] op.op = "reserve" -> Fin(st, op, ReserveF(c0, f, r, op.n), "ok", <<>>)

    [] op.op = "shrink_to" ->
         IF r.k # "H" THEN Out(st, Res(c0, "ok", <<>>, ""))
         ELSE LET nc == IF IsSym(op.n) THEN op.n ELSE Max(len, op.n)
                  oc == st.bufs[r.id].cap IN
              IF (~IsSym(nc)) /\ nc <= MaxInline
              THEN LET c1 == Release(c0, r) IN Out(Put(st, op.h, c1, InlineOf(t)), Res(c1, "ok", <<>>, ""))
              ELSE IF IsSym(nc) \/ nc >= oc THEN Out(st, Res(c0, "ok", <<>>, ""))
              ELSE IF st.bufs[r.id].rc = 1 THEN Fin(st, op, CR(Realloc(c0, f, r.id, nc), r), "ok", <<>>)
              ELSE LET c1 == Alloc(c0, f, t, nc) IN
                   IF c1.ok THEN Fin(st, op, CR(Release(c1, r), HeapRep(c1.nb, len)), "ok", <<>>)
                   ELSE Fin(st, op, CR(c1, r), "ok", <<>>)

    [] op.op = "push_str" -> Fin(st, op, PushF(c0, f, r, op.s), "ok", <<>>)

    [] op.op = "pop" ->
         IF len = 0 THEN Out(st, Res(c0, "none", <<>>, ""))
         ELSE LET n == LastCharStart(t) IN
              Out(Put(st, op.h, c0, TruncRep(r, n)), Res(c0, "some", SubSeq(t, n + 1, len), ""))

    [] op.op = "truncate" ->
         IF op.n >= len THEN Out(st, Res(c0, "ok", <<>>, ""))
         ELSE IF ~IsBoundary(t, op.n) THEN Out(st, Res(c0, "panic", <<>>, "index"))
         ELSE Out(Put(st, op.h, c0, TruncRep(r, op.n)), Res(c0, "ok", <<>>, ""))

    [] op.op = "clear" ->
         IF r.k = "H" /\ st.bufs[r.id].rc > 1
         THEN LET c1 == Release(c0, r) IN Out(Put(st, op.h, c1, InlineOf(<<>>)), Res(c1, "ok", <<>>, ""))
         ELSE Out(Put(st, op.h, c0, TruncRep(r, 0)), Res(c0, "ok", <<>>, ""))

    [] op.op = "remove" ->
         IF (~IsBoundary(t, op.n)) \/ op.n >= len THEN Out(st, Res(c0, "panic", <<>>, "index"))
         ELSE LET w  == Min(WidthOfLead(t[op.n + 1]), len - op.n)
                  ch == SubSeq(t, op.n + 1, op.n + w)
                  nt == SubSeq(t, 1, op.n) \o SubSeq(t, op.n + w + 1, len)
                  cr == EnsureModF(c0, f, r) IN
              IF cr.c.ok THEN Fin(st, op, SetText(cr, nt), "ok", ch) ELSE Fin(st, op, cr, "ok", ch)

    [] op.op = "insert_str" ->
         IF ~IsBoundary(t, op.n) THEN Out(st, Res(c0, "panic", <<>>, "index"))
         ELSE LET nt == SubSeq(t, 1, op.n) \o op.s \o SubSeq(t, op.n + 1, len)
                  cr == ReserveF(c0, f, r, Len(op.s)) IN
              IF cr.c.ok THEN Fin(st, op, SetText(cr, nt), "ok", <<>>) ELSE Fin(st, op, cr, "ok", <<>>)

    [] op.op = "retain" ->
         LET cr == EnsureModF(c0, f, r) IN
         IF ~cr.c.ok THEN Fin(st, op, cr, "ok", <<>>)
         ELSE LET g == RetainGo(Chars(t), 1, op.x, <<>>)
                  cr2 == SetText(cr, g.t) IN
              IF g.p THEN Out(Put(st, op.h, cr2.c, cr2.r), Res(cr2.c, "panic", <<>>, "callback"))
              ELSE Fin(st, op, cr2, "ok", <<>>)

    [] op.op = "extend" ->     \* v = "chars": size hint n reserved first (result ignored); "strs": no hint
         LET cr0 == IF op.v = "chars" THEN ReserveF(c0, f, r, op.n) ELSE CR(c0, r)
             c1  == [cr0.c EXCEPT !.ok = TRUE]
             g   == PushItems(c1, f, cr0.r, op.x, 1, op.m) IN
         Out(Put(st, op.h, g.c, g.r),
             IF g.out = "ok" THEN Res(g.c, "ok", <<>>, "")
             ELSE IF g.out = "cb" THEN Res(g.c, "panic", <<>>, "callback")
             ELSE Res(g.c, "panic", <<>>, "reserve"))

    [] op.op = "collect" ->    \* constructor; "chars": with_capacity(hint) or, if that fails, empty inline
         LET hint == IF op.n = OVERFLOW THEN TOOLONG ELSE op.n
             c1 == IF op.v = "chars" /\ (IsSym(hint) \/ hint > MaxInline) THEN Alloc(c0, f, <<>>, hint) ELSE c0
             r1 == IF op.v = "chars" /\ c1.ok /\ c1.a = 1 THEN HeapRep(c1.nb, 0) ELSE InlineOf(<<>>)
             g  == PushItems([c1 EXCEPT !.ok = TRUE], f, r1, op.x, 1, op.m) IN
         IF g.out = "ok" THEN Out(Put(st, op.h, g.c, g.r), Res(g.c, "ok", <<>>, ""))
         ELSE LET c2 == Release(g.c, g.r) IN      \* the accumulator is dropped while unwinding
              Out(Put(st, op.h, c2, Dead),
                  Res(c2, "panic", <<>>, IF g.out = "cb" THEN "callback" ELSE "reserve"))

    [] op.op = "from_utf8_lossy" ->   \* with_capacity(len) (panicking), then push_str(valid run) / push(U+FFFD) per chunk
         LET n  == Len(op.s)
             c1 == IF n > MaxInline THEN Alloc(c0, f, <<>>, n) ELSE c0 IN
         IF ~c1.ok THEN Out(st, Res(c1, "panic", <<>>, "reserve"))
         ELSE LET r1 == IF n > MaxInline THEN HeapRep(c1.nb, 0) ELSE InlineOf(<<>>)
                  g  == PushItems(c1, f, r1, LossyItems(op.s), 1, 0) IN
              IF g.out = "ok" THEN Out(Put(st, op.h, g.c, g.r), Res(g.c, "ok", <<>>, ""))
              ELSE LET c2 == Release(g.c, g.r) IN Out(Put(st, op.h, c2, Dead), Res(c2, "panic", <<>>, "reserve"))

    [] op.op = "from_utf16" ->        \* with_capacity(units), push per decoded char, Err at the first unpaired surrogate
         LET n  == Len(op.x)
             d  == Dec16Items(op.x, 1, FALSE)
             c1 == IF n > MaxInline THEN Alloc(c0, f, <<>>, n) ELSE c0 IN
         IF ~c1.ok THEN Out(st, Res(c1, "panic", <<>>, "reserve"))
         ELSE LET r1 == IF n > MaxInline THEN HeapRep(c1.nb, 0) ELSE InlineOf(<<>>)
                  g  == PushItems(c1, f, r1, d.items, 1, 0) IN
              IF g.out = "ok" /\ d.ok THEN Out(Put(st, op.h, g.c, g.r), Res(g.c, "ok", <<>>, ""))
              ELSE LET c2 == Release(g.c, g.r) IN
                   Out(Put(st, op.h, c2, Dead), IF g.out = "ok" THEN Res(c2, "err", <<>>, "utf16") ELSE Res(c2, "panic", <<>>, "reserve"))

    [] op.op = "display" ->    \* to_lean_string() of a user Display type: new, then one push_str per piece written
         \* n > 0: fmt() returns Err before piece n;  m > 0: fmt() panics before piece m (the error wins at the same piece)
         LET items == IF op.n > 0 THEN SubSeq(op.x, 1, op.n - 1) ELSE op.x
             mEff  == IF op.n > 0 /\ op.m >= op.n THEN 0 ELSE op.m
             g     == PushItems(c0, f, InlineOf(<<>>), items, 1, mEff) IN
         IF g.out = "ok" /\ op.n = 0 THEN Out(Put(st, op.h, g.c, g.r), Res(g.c, "ok", <<>>, ""))
         ELSE LET c2 == Release(g.c, g.r) IN      \* the partial string is dropped
              Out(Put(st, op.h, c2, Dead),
                  IF g.out = "reserve" THEN ResErr(c2, op)
                  ELSE IF g.out = "cb" THEN Res(c2, "panic", <<>>, "callback")
                  ELSE IF op.t = 1 THEN Res(c2, "err", <<>>, "fmt") ELSE Res(c2, "panic", <<>>, "fmt"))

    [] op.op = "compare" ->     \* ==, cmp, hash, Display, Debug, map lookups: functions of as_str() only
         LET u == RText(st.hs[op.g], st.bufs) IN
         Out(st, Res(c0, "ok", << (IF t = u THEN 1 ELSE 0), LexOrd(t, u), 1 >>, ""))

    [] OTHER -> Out(st, Res(c0, "unknown", <<>>, ""))

\* --------------------------------------------------------- observation
\* what the harness can see of a state: per handle kind, text, length,
\* capacity, last raw byte, where the text pointer points, reference count,
\* is_heap_allocated(); per live buffer its allocation size; "the static texts
\* are intact"; "Some(handle) is Some for every live handle"
ProjH(r, bt) ==
  IF r.k = "D" THEN [k |-> "D", text |-> <<>>, len |-> 0, cap |-> 0, last |-> 0, pc |-> "none", pid |-> 0, rc |-> 0, heap |-> FALSE, rd |-> ""]
  ELSE [k |-> r.k, rd |-> "", text |-> RText(r, bt), len |-> RLen(r), cap |-> RCap(r, bt), last |-> RLast(r), heap |-> (r.k = "H"),
        pc  |-> (CASE r.k = "I" -> "self" [] r.k = "S" -> "static" [] OTHER -> "heap"),
        pid |-> (IF r.k = "I" THEN 0 ELSE r.id),
        rc  |-> (IF r.k = "H" THEN bt[r.id].rc ELSE 0)]
Proj(st) == [hd  |-> [h \in H |-> ProjH(st.hs[h], st.bufs)],
             blk |-> [b \in B |-> IF st.bufs[b].live THEN HeaderSize + st.bufs[b].cap ELSE 0],
             sok |-> TRUE, nic |-> TRUE]
=============================================================================
