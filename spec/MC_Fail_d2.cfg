CONSTANTS
  NH = 2
  MaxBufs = 3
  Statics <- cStatics
  OpKinds <- cOpsAll
  StrArgs <- cStrS2
  CharArgs <- cChars
  Caps = {0, 30}
  IdxMode = "few"
  RetainPats <- cRetain
  ItemSeqs <- cItems2
  Hints = {0, 2, 5, 20}
  RawArgs <- cRawNone
  U16Args <- cU16None
  FailMode = 1
  PanicMode = 0
  Seeds <- cSeedsAll
  MaxSteps = 2
SPECIFICATION Spec
VIEW View
INVARIANTS ModelTypeOK NoUninitRead OwnInv
PROPERTIES AllSteps Refines
ACTION_CONSTRAINT Emit
CHECK_DEADLOCK FALSE
