CONSTANTS
  T = {1,2}
  Configs <- cDemo
  Variant = "decprobe"
  VariantE = "load"
  OrdCloneInc = "Relaxed"
  OrdDropDec = "Release"
  OrdDropFence = "Acquire"
  OrdUniqueLoad = "Acquire"
  OrdProbeDec = "Release"
  OrdProbeInc = "Acquire"
SPECIFICATION Spec
VIEW View
INVARIANTS SafeCex NoLeakAtEnd CountMatches EmitDone
CHECK_DEADLOCK FALSE
