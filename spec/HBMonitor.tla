----------------------------- MODULE HBMonitor -----------------------------
(* Shape-free happens-before monitor for executions recorded on real threads
   (pipeline D, code -> spec).  It consumes the event log of the harness - the
   atomic operations on the shared buffer's reference count with the ordering
   the code passed and the value it got back, the fences, the reads and writes
   of the buffer's bytes, its reallocation / release, thread spawn and join -
   drives the SAME memory-model operators as Conc.tla (vector clocks, release
   sequences, pending acquires) and reports data races, use-after-free and
   double frees of the execution AS RECORDED, whatever the order of the code's
   micro steps is.  Real executions are sequentially consistent (x86, gated
   threads): every RMW and load reads the latest write; what the monitor adds
   is the C11 judgement of the orderings the code actually used.            *)
EXTENDS Conc, Json, IOUtils

Ev == ndJsonDeserialize(IOEnv.TRACE)

VARIABLES l, run, findings
hvars == <<l, run, findings>>

ResetMem ==
  /\ mo' = << [val |-> 1, rel |-> Zero, wt |-> 0, wc |-> 0] >>
  /\ vc' = [t \in T |-> Zero] /\ pend' = [t \in T |-> Zero] /\ seen' = [t \in T |-> 1]
  /\ lastW' = [t |-> 0, c |-> 0] /\ reads' = Zero /\ freed' = FALSE /\ err' = "none"
Frozen == UNCHANGED <<cfg, pc, ip, own, lent, sched>>
JoinAll(S, a) == LET RECURSIVE J(_, _) J(D, acc) == IF D = {} THEN acc ELSE LET u == CHOOSE u \in D : TRUE IN J(D \ {u}, Join(acc, vc[u])) IN J(S, a)

HInit == /\ cfg = [progs |-> <<>>, own0 |-> <<>>, borrowers |-> {}]
         /\ pc = [t \in T |-> "next"] /\ ip = [t \in T |-> 1] /\ own = [t \in T |-> 0] /\ lent = FALSE /\ sched = <<>>
         /\ mo = << [val |-> 1, rel |-> Zero, wt |-> 0, wc |-> 0] >>
         /\ vc = [t \in T |-> Zero] /\ pend = [t \in T |-> Zero] /\ seen = [t \in T |-> 1]
         /\ lastW = [t |-> 0, c |-> 0] /\ reads = Zero /\ freed = FALSE /\ err = "none"
         /\ l = 1 /\ run = 0 /\ findings = 0

Apply(e) ==
  LET t == e.t IN
  CASE e.k \in {"rmw+", "rmw-"} /\ e.x ->
         /\ RMW(t, IF e.k = "rmw+" THEN 1 ELSE -1, e.o)
         /\ err' = IF err = "none" /\ Prev # e.v THEN "log-inconsistent(rmw)" ELSE err
         /\ UNCHANGED <<lastW, reads, freed>>
    [] e.k = "load" /\ e.x ->
         /\ Load(t, Len(mo), e.o)
         /\ err' = IF err = "none" /\ Prev # e.v THEN "log-inconsistent(load)" ELSE err
         /\ UNCHANGED <<lastW, reads, freed>>
    [] e.k = "fence" -> Fence(t, e.o) /\ UNCHANGED <<lastW, reads, freed, err>>
    [] e.k = "read" /\ e.x -> BufRead(t) /\ UNCHANGED <<mo, pend, seen>>
    [] e.k = "write" /\ e.x -> BufWrite(t, FALSE) /\ UNCHANGED <<mo, pend, seen>>
    [] e.k \in {"dealloc", "realloc"} /\ e.x /\ e.o # "fail" -> BufWrite(t, TRUE) /\ UNCHANGED <<mo, pend, seen>>
    [] e.k = "spawn" ->      \* everything the spawner did happens-before the children
         /\ vc' = [u \in T |-> IF u = t THEN Tick(t) ELSE Join(vc[u], Tick(t))]
         /\ UNCHANGED <<mo, pend, seen, lastW, reads, freed, err>>
    [] e.k = "join" ->       \* everything the joined threads did happens-before the joiner's next step
         /\ vc' = [vc EXCEPT ![t] = JoinAll(T \ {t}, Tick(t))]
         /\ UNCHANGED <<mo, pend, seen, lastW, reads, freed, err>>
    [] OTHER -> UNCHANGED <<mo, vc, pend, seen, lastW, reads, freed, err>>

HNext ==
  /\ l <= Len(Ev) /\ l' = l + 1 /\ Frozen
  /\ LET e == Ev[l] IN
     CASE e.ev = "init" -> ResetMem /\ run' = run + 1 /\ UNCHANGED findings
       [] e.ev = "e" -> Apply(e) /\ UNCHANGED <<run, findings>>
       [] e.ev = "end" ->
            /\ UNCHANGED <<mo, vc, pend, seen, lastW, reads, freed, err, run>>
            /\ findings' = findings + (IF err # "none" \/ ~freed THEN 1 ELSE 0)
            /\ (err # "none" \/ ~freed) =>
                  PrintT("HB " \o ToJson([run |-> run, err |-> (IF err # "none" THEN err ELSE "leak(never freed)"), l |-> l]))
       [] OTHER -> UNCHANGED <<mo, vc, pend, seen, lastW, reads, freed, err, run, findings>>
HSpec == HInit /\ [][HNext]_<<vars, hvars>>

HConsumed ==
  LET d == TLCGet("stats").diameter IN
  IF d - 1 = Len(Ev) THEN PrintT("CONSUMED " \o ToString(Len(Ev)))
  ELSE Print(<<"STUCK at record", d, Ev[d]>>, FALSE)
=============================================================================
