---------------------------- MODULE Own ----------------------------
(* The ownership protocol of lean_string without bytes: who points at which
   buffer, what the count says, when a buffer is freed, when in-place writes
   are allowed.  Small enough for an INDUCTIVE argument (Apalache), i.e. for
   histories of any length over a fixed pool - the part of C02/C03 that does
   not depend on text.  LeanString.tla refines this module (TLC checks the
   refinement on every explored transition: MC!Refines).                    *)
EXTENDS Integers, FiniteSets

CONSTANTS
  \* @type: Set(Int);
  H,
  \* @type: Set(Int);
  B

VARIABLES
  \* @type: Int -> Int;
  ref,      \* handle -> buffer id, 0 = not on the heap (dead, inline or static)
  \* @type: Int -> Int;
  rc,       \* buffer -> reference count (0 when not allocated)
  \* @type: Int -> Bool;
  live,     \* buffer currently allocated
  \* @type: Int -> Int;
  writes    \* buffer -> number of in-place writes made while it was shared (must stay 0)

ConstInit == H = {1, 2, 3, 4} /\ B = {1, 2, 3, 4}

Holders(b) == {h \in H : ref[h] = b}

Init == /\ ref = [h \in H |-> 0]
        /\ rc = [b \in B |-> 0]
        /\ live = [b \in B |-> FALSE]
        /\ writes = [b \in B |-> 0]

\* Fresh: a handle gets a fresh buffer (constructor, copy-out of a shared buffer / static / inline growth)
RelRc(h) == IF ref[h] = 0 THEN rc ELSE [rc EXCEPT ![ref[h]] = @ - 1]
RelLive(h) == IF ref[h] = 0 THEN live ELSE [live EXCEPT ![ref[h]] = (rc[ref[h]] > 1)]

Fresh(h) == \E b \in B :
   /\ ~live[b]
   /\ rc' = [RelRc(h) EXCEPT ![b] = 1]
   /\ live' = [RelLive(h) EXCEPT ![b] = TRUE]
   /\ ref' = [ref EXCEPT ![h] = b]
   /\ UNCHANGED writes

\* clone / clone_from: h becomes a copy of g
Clone(h, g) ==
   /\ h # g
   /\ (IF ref[g] = 0 THEN rc' = RelRc(h) /\ live' = RelLive(h)
       ELSE IF ref[h] = ref[g] THEN UNCHANGED <<rc, live>>
       ELSE rc' = [RelRc(h) EXCEPT ![ref[g]] = @ + 1] /\ live' = RelLive(h))
   /\ ref' = [ref EXCEPT ![h] = ref[g]]
   /\ UNCHANGED writes

\* drop / clear-while-shared / shrink to inline: h leaves the heap
Leave(h) ==
   /\ ref[h] # 0
   /\ rc' = RelRc(h) /\ live' = RelLive(h)
   /\ ref' = [ref EXCEPT ![h] = 0]
   /\ UNCHANGED writes

\* in-place mutation: only taken when the probe says unique
WriteInPlace(h) ==
   /\ ref[h] # 0 /\ rc[ref[h]] = 1
   /\ writes' = [writes EXCEPT ![ref[h]] = IF Cardinality(Holders(ref[h])) > 1 THEN @ + 1 ELSE @]
   /\ UNCHANGED <<ref, rc, live>>

Next == \E h \in H : Fresh(h) \/ Leave(h) \/ WriteInPlace(h) \/ \E g \in H : Clone(h, g)

TypeOK == /\ ref \in [H -> B \union {0}] /\ rc \in [B -> 0..4]
          /\ live \in [B -> BOOLEAN] /\ writes \in [B -> 0..1]
RcOK == \A b \in B : rc[b] = Cardinality(Holders(b))
LiveOK == \A b \in B : live[b] <=> rc[b] > 0
NoSharedWrite == \A b \in B : writes[b] = 0
IndInv == TypeOK /\ RcOK /\ LiveOK /\ NoSharedWrite
=============================================================================
