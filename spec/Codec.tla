------------------------------- MODULE Codec -------------------------------
(* UTF-8 / UTF-16 decoding as the Unicode standard defines it, independent of
   std and of the crate (C16, and the byte inputs of C19).

   Lossy UTF-8 decoding follows the "maximal subpart" practice (Unicode 15,
   3.9, U+FFFD substitution of maximal subparts): at an ill-formed position the
   longest prefix that could still start a well-formed sequence is replaced by
   ONE U+FFFD, and decoding resumes right after it.                          *)
EXTENDS Integers, Sequences, Utf8

FFFD == <<239, 191, 189>>

\* length (1..3) of the maximal subpart of an ill-formed sequence starting at offset i
BadLen(bs, i) ==
  LET n  == Len(bs)
      b0 == bs[i + 1]
      In(k, lo, hi) == i + k < n /\ bs[i + k + 1] >= lo /\ bs[i + k + 1] <= hi
      \* second-byte range allowed after lead b0
      lo2 == IF b0 = 224 THEN 160 ELSE IF b0 = 240 THEN 144 ELSE 128
      hi2 == IF b0 = 237 THEN 159 ELSE IF b0 = 244 THEN 143 ELSE 191
  IN  IF b0 < 194 \/ b0 > 244 THEN 1                       \* continuation, C0/C1, F5..FF: never a lead
      ELSE IF b0 <= 223 THEN 1                               \* 2-byte lead without its continuation
      ELSE IF b0 <= 239 THEN (IF In(1, lo2, hi2) THEN 2 ELSE 1)
      ELSE IF ~In(1, lo2, hi2) THEN 1
      ELSE IF ~In(2, 128, 191) THEN 2 ELSE 3

RECURSIVE LossyFrom(_, _)
LossyFrom(bs, i) ==
  IF i >= Len(bs) THEN <<>>
  ELSE LET w == WfWidth(bs, i) IN
       IF w > 0 THEN SubSeq(bs, i + 1, i + w) \o LossyFrom(bs, i + w)
       ELSE FFFD \o LossyFrom(bs, i + BadLen(bs, i))
Lossy8(bs) == LossyFrom(bs, 0)
\* the same text as the sequence of pieces from_utf8_lossy pushes: maximal well-formed runs and U+FFFD
RECURSIVE ValidRunEnd(_, _)
ValidRunEnd(bs, i) == IF i >= Len(bs) THEN i ELSE LET w == WfWidth(bs, i) IN IF w = 0 THEN i ELSE ValidRunEnd(bs, i + w)
RECURSIVE LossyItemsFrom(_, _)
LossyItemsFrom(bs, i) ==
  IF i >= Len(bs) THEN <<>>
  ELSE LET e == ValidRunEnd(bs, i) IN
       IF e >= Len(bs) THEN <<SubSeq(bs, i + 1, e)>>
       ELSE <<SubSeq(bs, i + 1, e), FFFD>> \o LossyItemsFrom(bs, e + BadLen(bs, e))
LossyItems(bs) == LossyItemsFrom(bs, 0)
Valid8(bs) == ValidFrom(bs, 0)

\* ---------------------------------------------------------------- UTF-16
IsHigh(u) == u >= 55296 /\ u <= 56319      \* D800..DBFF
IsLow(u)  == u >= 56320 /\ u <= 57343      \* DC00..DFFF
RECURSIVE Dec16From(_, _)
\* result: [ok, text, lossy]
Dec16From(us, i) ==
  IF i > Len(us) THEN [ok |-> TRUE, text |-> <<>>, lossy |-> <<>>]
  ELSE LET u == us[i] IN
       IF ~IsHigh(u) /\ ~IsLow(u)
       THEN LET r == Dec16From(us, i + 1) IN [ok |-> r.ok, text |-> Enc(u) \o r.text, lossy |-> Enc(u) \o r.lossy]
       ELSE IF IsHigh(u) /\ i < Len(us) /\ IsLow(us[i + 1])
       THEN LET cp == 65536 + (u - 55296) * 1024 + (us[i + 1] - 56320)
                r  == Dec16From(us, i + 2) IN
            [ok |-> r.ok, text |-> Enc(cp) \o r.text, lossy |-> Enc(cp) \o r.lossy]
       ELSE LET r == Dec16From(us, i + 1) IN      \* unpaired surrogate
            [ok |-> FALSE, text |-> <<>>, lossy |-> FFFD \o r.lossy]
Dec16(us) == Dec16From(us, 1)
\* the characters from_utf16 pushes before it meets the first unpaired surrogate / from_utf16_lossy collects
RECURSIVE Dec16Items(_, _, _)
Dec16Items(us, i, lossy) ==      \* [items, ok]
  IF i > Len(us) THEN [items |-> <<>>, ok |-> TRUE]
  ELSE LET u == us[i] IN
       IF ~IsHigh(u) /\ ~IsLow(u)
       THEN LET r == Dec16Items(us, i + 1, lossy) IN [items |-> <<Enc(u)>> \o r.items, ok |-> r.ok]
       ELSE IF IsHigh(u) /\ i < Len(us) /\ IsLow(us[i + 1])
       THEN LET r == Dec16Items(us, i + 2, lossy) IN
            [items |-> <<Enc(65536 + (u - 55296) * 1024 + (us[i + 1] - 56320))>> \o r.items, ok |-> r.ok]
       ELSE IF lossy THEN LET r == Dec16Items(us, i + 1, lossy) IN [items |-> <<FFFD>> \o r.items, ok |-> r.ok]
       ELSE [items |-> <<>>, ok |-> FALSE]
=============================================================================
