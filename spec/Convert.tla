------------------------------ MODULE Convert ------------------------------
(* Trace monitor for the conversion entry points (C14, C15, C19): the harness
   records one ndjson record per conversion performed on the real crate; this
   module computes what the text must be from first principles and evaluates
   the storage consequence of C09 on the same record.

   Decimal text of an integer given as sign + base-2^16 limbs (little endian),
   so that 128-bit values stay inside TLC's 32-bit integers: schoolbook long
   division by ten - independent of Display and of the crate's table-driven
   writer.                                                                   *)
EXTENDS Integers, Sequences, FiniteSets, TLC, Json, IOUtils, Utf8

R == ndJsonDeserialize(IOEnv.TRACE)

\* ---------------------------------------------------------------- decimal
\* divide a magnitude (limbs, most significant LAST) by ten: [q, r]
RECURSIVE DivGo(_, _, _, _)
DivGo(limbs, i, rem, acc) ==      \* i runs from Len(limbs) down to 1; acc collects quotient limbs (most significant first)
  IF i = 0 THEN [q |-> acc, r |-> rem]
  ELSE LET cur == rem * 65536 + limbs[i] IN DivGo(limbs, i - 1, cur % 10, acc \o <<cur \div 10>>)
Reverse(s) == [i \in 1..Len(s) |-> s[Len(s) + 1 - i]]
RECURSIVE Strip(_)
Strip(l) == IF l # <<>> /\ l[Len(l)] = 0 THEN Strip(SubSeq(l, 1, Len(l) - 1)) ELSE l      \* drop leading (most significant) zero limbs
Div10(limbs) == LET d == DivGo(limbs, Len(limbs), 0, <<>>) IN [q |-> Strip(Reverse(d.q)), r |-> d.r]
RECURSIVE Digits(_)
Digits(limbs) ==                  \* ASCII digits, most significant first; <<>> for zero
  IF limbs = <<>> THEN <<>>
  ELSE LET d == Div10(limbs) IN Digits(d.q) \o <<48 + d.r>>
DecText(neg, limbs) ==
  LET m == Strip(limbs)
      ds == IF m = <<>> THEN <<48>> ELSE Digits(m) IN
  IF neg /\ m # <<>> THEN <<45>> \o ds ELSE ds

\* ---------------------------------------------------------------- predicates
Storage(e) ==      \* C09: up to 16 bytes inline and allocation free, beyond one exact allocation
  IF Len(e.text) <= 16 THEN ~e.heap /\ e.dA = 0 ELSE e.heap /\ e.dA = 1 /\ e.cap = Len(e.text)
\* numbers are written into a buffer reserved for their digit count: C09 only speaks about the short ones
NumStorage(e) == IF Len(e.text) <= 16 THEN ~e.heap /\ e.dA = 0 ELSE e.heap /\ e.dA = 1 /\ e.cap >= Len(e.text)
FloatAlphabet == {48, 49, 50, 51, 52, 53, 54, 55, 56, 57, 46, 45, 101, 69}
Str(s) == [i \in 1..Len(s) |-> CHOOSE c \in 0..127 : TRUE]   \* (unused)
NaNText  == <<78, 97, 78>>
InfText  == <<105, 110, 102>>
FloatOK(e) ==
  /\ e.rt
  /\ CASE e.cls = "nan"   -> e.text = NaNText
       [] e.cls = "pinf"  -> e.text = InfText
       [] e.cls = "ninf"  -> e.text = <<45>> \o InfText
       [] e.cls = "pzero" -> e.text = <<48, 46, 48>>
       [] e.cls = "nzero" -> e.text = <<45, 48, 46, 48>>
       [] OTHER -> /\ e.text # <<>>
                   /\ \A i \in 1..Len(e.text) : e.text[i] \in FloatAlphabet
                   /\ \E i \in 1..Len(e.text) : e.text[i] >= 48 /\ e.text[i] <= 57
                   /\ (e.text[1] = 45) <=> e.neg
PiecesText(ps) == Concat(ps)
DispOK(e) ==
  IF e.failat > 0 /\ e.failat <= Len(e.pieces) + 1
  THEN e.cls = "err" /\ e.msg = "fmt" /\ e.stdcls = "err"      \* a Display that reports an error yields Err(Fmt), no string
  ELSE e.cls = "ok" /\ e.text = PiecesText(e.pieces) /\ e.stdcls = "ok" /\ e.stdtext = e.text

\* ----- scale records (C08, C11, C12, C01 at sizes far beyond the exhaustive scenarios; all numbers < 2^31)
\* a growth event of an append / insert / reserve: old length, bytes needed in addition, new capacity
GrowOK(e) == LET lo == e.len + (e.len \div 2)  need == e.len + e.add IN
             e.cap2 >= lo /\ e.cap2 <= Max(lo, need) /\ e.cap2 >= need
\* a whole push loop: number of growth events is logarithmic: each multiplies the capacity by >= 1.5 (floor)
RECURSIVE Log15(_, _)
Log15(c, n) == IF c >= n THEN 0 ELSE 1 + Log15(Max(c + 1, c + (c \div 2)), n)
LoopOK(e) == e.events <= Log15(Max(e.cap0, 16), e.final) + 2 /\ e.teq /\ e.lenok
\* cloning at any length: no allocator request, same bytes, equal text, either side survives the other's drop
BigCloneOK(e) == e.dA = 0 /\ e.dR = 0 /\ e.eq /\ (e.len > 16 => e.sameptr) /\ e.survives /\ e.rcok
\* one public call on a large string, compared with String by the harness
BigOpOK(e) == e.teq /\ e.len2 = e.explen /\ e.cap2 >= e.len2 /\ e.resok /\ e.others    \* others: a sibling cloned off earlier still reads its own text
NoMoveOK(e) == e.fits => (e.dA + e.dR = 0 /\ e.sameptr)
\* shrink_to(m) / shrink_to_fit on a buffer with (kilobytes of) spare room, sole owner or shared: C13's postcondition
ShrinkOK(e) == LET t == Max(e.len, e.m) IN
   /\ e.ok /\ e.teq /\ e.others /\ e.cap2 >= e.len /\ e.cap2 <= Max(e.cap1, 16)
   /\ (e.cap1 > t => IF t <= 16 THEN ~e.heap2 ELSE (e.heap2 /\ e.cap2 = t))
   /\ (e.cap1 <= t => e.cap2 = e.cap1)
\* a size no allocator can satisfy, on a target of a page or more: refused cleanly, nothing changed; as an iterator's
\* lower bound it is only a hint: the extend still succeeds
BigSizeOK(e) == IF e.hint THEN e.cls = "ok" /\ e.teq /\ e.others /\ e.capok
                ELSE e.cls = "err" /\ e.teq /\ e.same /\ e.others /\ e.capok

Bad(e) ==
  CASE e.k = "int"   -> {n \in {"IntText", "IntStorage", "IntStd"} :
                           CASE n = "IntText" -> e.text # DecText(e.neg, e.limbs)
                             [] n = "IntStorage" -> ~NumStorage(e)
                             [] OTHER -> e.std # DecText(e.neg, e.limbs)}
    [] e.k = "bool"  -> {n \in {"BoolText", "BoolStorage"} :
                           IF n = "BoolText" THEN e.text # (IF e.v THEN <<116, 114, 117, 101>> ELSE <<102, 97, 108, 115, 101>>) ELSE ~Storage(e)}
    [] e.k = "char"  -> {n \in {"CharText", "CharStorage"} : IF n = "CharText" THEN e.text # Enc(e.cp) ELSE ~Storage(e)}
    [] e.k = "str"   -> {n \in {"StrText", "StrStorage"} : IF n = "StrText" THEN e.text # e.inp ELSE ~Storage(e)}
    [] e.k = "disp"  -> {n \in {"DispOK"} : ~DispOK(e)}
    [] e.k = "float" -> {n \in {"FloatOK", "FloatStorage"} : IF n = "FloatOK" THEN ~FloatOK(e) ELSE ~NumStorage(e)}
    [] e.k = "ser"   -> {n \in {"SerOK"} :     \* one serialize_str with the text, whatever the format says about being human readable; the same as String
                           ~(e.calls = <<[m |-> "human_readable", v |-> <<1>>], [m |-> "str", v |-> e.text],
                                         [m |-> "human_readable", v |-> <<0>>], [m |-> "str", v |-> e.text]>> /\ e.stdcalls = e.calls)}
    [] e.k = "arb"   -> {n \in {"ArbOK"} : ~(e.same /\ (e.ok => e.text = e.ref))}
    [] e.k = "grow"  -> {n \in {"GrowOK"} : ~GrowOK(e)}
    [] e.k = "loop"  -> {n \in {"LoopOK"} : ~LoopOK(e)}
    [] e.k = "bigclone" -> {n \in {"BigCloneOK"} : ~BigCloneOK(e)}
    [] e.k = "bigop" -> {n \in {"BigOpOK", "NoMoveOK"} : IF n = "BigOpOK" THEN ~BigOpOK(e) ELSE ~NoMoveOK(e)}
    [] e.k = "shrink" -> {n \in {"ShrinkOK"} : ~ShrinkOK(e)}
    \* a long static text: constructor, clone, truncate, pop, clear borrow without any allocation; the first write moves; the text itself is never written
    [] e.k = "bigstatic" -> {n \in {"BigStaticOK"} : ~(e.ctor /\ e.cloned /\ e.truncated /\ e.popped /\ e.cleared /\ e.quiet /\ e.moved /\ e.pristine)}
    [] e.k = "bigsize" -> {n \in {"BigSizeOK"} : ~BigSizeOK(e)}
    [] OTHER -> {}
\* the oracle itself: std must agree with the specification (else the specification is wrong)
SpecBad(e) ==
  CASE e.k = "int" -> e.std # DecText(e.neg, e.limbs)
    [] e.k = "char" -> e.std # Enc(e.cp)
    [] OTHER -> FALSE

VARIABLE l
Init == l = 1
Next == /\ l <= Len(R) /\ l' = l + 1
        /\ LET e == R[l]
               b == Bad(e) \ (IF SpecBad(e) THEN {"IntStd"} ELSE {}) IN
           /\ SpecBad(e) => PrintT("SPECERR " \o ToJson([l |-> l, k |-> e.k]))
           /\ (b \ {"IntStd"}) # {} => PrintT("FAIL " \o ToJson([l |-> l, k |-> e.k, ty |-> (IF e.k = "int" THEN e.ty ELSE ""), bad |-> b \ {"IntStd"}]))
Spec == Init /\ [][Next]_l
Consumed ==
  LET d == TLCGet("stats").diameter IN
  IF d - 1 = Len(R) THEN PrintT("CONSUMED " \o ToString(Len(R))) ELSE Print(<<"STUCK at record", d, R[d]>>, FALSE)
=============================================================================
