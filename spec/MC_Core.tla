------------------------------ MODULE MC_Core ------------------------------
(* Scenario "Core": empty pool, constructors, clone/drop and the mutators,
   small alphabets that straddle the code's case splits.                    *)
EXTENDS MC
A15 == <<97,98,99,100,101,102,103,104,105,106,107,108,109,110,111>>     \* 15 ASCII bytes
cStrS3 == { <<97>>, <<240,157,132,158>>, A15 \o <<112,113>> }           \* "a", U+1D11E, 17 bytes
cStrS5 == cStrS3 \cup { <<195,169>>, A15 }                               \* + "é", 15 bytes
cStatics == << <<83,116,97,116,105,99,32,116,101,120,116,32,49,56,32,98,226,130,172,33>> >>  \* "Static text 18 b€!" (20 bytes)
cChars == { <<226,130,172>> }
cRetain == { <<0,1,0,1,0,1,0,1,0,1,0,1,0,1,0,1,0,1,0,1>> }
cItems == { << <<98>>, <<195,169>> >> }
cOpsCore == {"new","from_str","from_static","with_capacity","clone","drop","reserve","shrink_to",
             "push_str","pop","clear","truncate","remove","insert_str"}
cOpsAll == cOpsCore \cup {"from_char","clone_from","retain","extend","collect"}
cSeedsEmpty == { <<>> }
=============================================================================
