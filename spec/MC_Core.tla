------------------------------ MODULE MC_Core ------------------------------
(* Alphabets and seeds for the scenarios (MC_*.cfg).  Texts are UTF-8 byte
   sequences chosen to straddle the code's case splits: 15/16/17 bytes,
   1/2/3/4-byte characters, every class of final byte of a full inline text. *)
EXTENDS MC
A15 == <<97,98,99,100,101,102,103,104,105,106,107,108,109,110,111>>     \* "abcdefghijklmno"
A17 == A15 \o <<112,113>>                                               \* 17 ASCII bytes
G4  == <<240,157,132,158>>                                              \* U+1D11E, 4 bytes
E2  == <<195,169>>                                                      \* U+00E9, 2 bytes
U3  == <<226,130,172>>                                                  \* U+20AC, 3 bytes
M16 == <<97,98,99,100,101,102,103,104,105,106,107,108,109>> \o U3       \* 16 bytes ending in a 3-byte char
M22 == <<97>> \o E2 \o U3 \o G4 \o <<98,99>> \o G4 \o U3 \o E2 \o <<100>> \* 22 bytes, every width
cStrS3 == { <<97>>, G4, A17 }
cStrS5 == cStrS3 \cup { E2, A15, <<>> }
cStrS2 == { <<97>>, A17 }
cStrMix == { <<>>, <<97>>, U3, M22 }          \* the empty string too: an empty insert must still be rejected at a bad index
\* static texts: 20 bytes with a 3-byte char near the end; 40 bytes; 17 bytes
St20 == <<83,116,97,116,105,99,32,116,101,120,116,32,49,56,32,98,226,130,172,33>>
St40 == St20 \o <<32,97,110,100,32,115,111,109,101,32,109,111,114,101,32,195,169,33,33,33>>
cStatics == << St20 >>
cStatics2 == << St20, St40 >>
cStatics3 == << St20, St40, St20 >>     \* the same text at two addresses (1 and 3), and as a prefix of a longer one (2)
cChars == { U3 }
cCharsAll == { <<97>>, E2, U3, G4 }
cRetain == { <<0,1,0,1,0,1,0,1,0,1,0,1,0,1,0,1,0,1,0,1,0,1>> }
cRetainP == cRetain \cup { <<1,1,1,1,1,1,1,1,1,1,1,1,1,1,1,1,1,1,1,1,1,1>>, <<0>>, <<1,0,2>>, <<2>>, <<0,0,0,1,2>> }
cItems == { << <<98>>, E2 >> }
\* (the last one: an item that is itself longer than the inline limit - for strs / Display pieces only)
\* (and one made mostly of EMPTY pieces: more pieces than bytes - a piece count is not a byte count)
\* (and six chars of every width, 12 bytes: with a hint of 5 the lower bound is honest and 4 x it is above the inline limit)
cItems2 == { << <<97>>, E2, U3, <<98>>, <<99>>, G4 >>, << <<>>, <<>>, <<>>, <<98>>, <<>>, <<>> >>, << <<98>>, E2 >>, << G4, G4, G4, G4, <<120>> >>, <<>>, << A17, <<98>> >> }
cOpsCore == {"new","from_str","from_static","with_capacity","clone","drop","reserve","shrink_to",
             "push_str","pop","clear","truncate","remove","insert_str"}
cOpsAll == cOpsCore \cup {"from_char","clone_from","retain","extend","collect","display","clone_ovf"}
cOpsMut == {"clone","drop","reserve","shrink_to","push_str","pop","clear","truncate","remove","insert_str","clone_from","retain","extend"}
cOpsIdx == {"truncate","remove","insert_str"}
cSeedsEmpty == { <<>> }
\* raw byte sequences: valid, truncated lead, bad continuation, overlong, surrogate, long runs crossing the inline limit
\* (the last two: 15 / 16 bytes whose lossy text is exactly 16 bytes: a truncated 3- / 4-byte char at the end / at the front)
cRaw == { <<49,50,51,52,53,54,55,56,57,48,97,98,99,226,130>>, <<240,159,152,49,50,51,52,53,54,55,56,57,48,97,98,99>>, <<97, 255, 98>>, <<240, 144, 128>>, <<226, 130>> \o A15 \o <<237, 160, 128, 99>>, A17 \o <<192, 175, 244, 144>>, <<>>, G4 \o A15 }
cRawNone == {}
cU16 == { [i \in 1..16 |-> 97], [i \in 1..5 |-> 8364] \o <<97>>, <<97, 55296, 98>>, <<55357, 56832, 97>>, <<56320>>, <<>>, [i \in 1..18 |-> IF i = 9 THEN 55296 ELSE 8364],
          [i \in 1..6 |-> IF i % 2 = 1 THEN 55357 ELSE 56832], [i \in 1..8 |-> IF i % 2 = 1 THEN 55357 ELSE 56832],       \* 3 and 4 pairs: 12 and 16 bytes from 6 and 8 units
          <<55348, 56606, 109, 117, 115, 105, 99, 55348, 56606>>, [i \in 1..6 |-> IF i % 2 = 1 THEN 55357 ELSE 56832] \o <<97, 55296>> }
cU16None == {}
cOpsSim == cOpsAll \cup {"compare", "from_utf8_lossy", "from_utf16"}
cCapsSim == {0, 1, 15, 16, 17, 30, 64, BIG, TOOLONG}
cOpsDecode == {"from_utf8_lossy", "from_utf16", "push_str", "pop", "clone", "drop", "shrink_to", "reserve"}
cCapsSizes == {0, 1, 15, 16, 17, 30, BIG, TOOLONG, OVERFLOW}
cHintsSizes == {0, 20, BIG, TOOLONG, OVERFLOW}

\* ---- seeds: storage states that take many steps to reach, given as ordinary paths
o(op, h, g, n, s) == OpRec(op, "", 0, h, g, n, 0, s, <<>>, {})
SeedHeapUnique  == << o("from_str", 1, 0, 0, A17) >>
SeedHeapShared  == << o("from_str", 1, 0, 0, A17), o("clone", 2, 1, 0, <<>>) >>
SeedHeapSharedT == << o("from_str", 1, 0, 0, M22), o("clone", 2, 1, 0, <<>>), o("truncate", 2, 0, 6, <<>>) >>   \* sibling shorter
SeedHeapSharedM == << o("from_str", 1, 0, 0, M22), o("clone", 2, 1, 0, <<>>) >>                                 \* shared, every char width, equal lengths
SeedHeapOver    == << o("with_capacity", 1, 0, 40, <<>>), o("push_str", 1, 0, 0, M22) >>                        \* cap 40, len 22
SeedHeapOverSh  == SeedHeapOver \o << o("clone", 2, 1, 0, <<>>) >>
SeedHeapShort   == << o("from_str", 1, 0, 0, A17), o("truncate", 1, 0, 3, <<>>) >>                              \* heap, len 3
SeedStatic      == << o("from_static", 1, 1, 0, <<>>) >>
SeedStaticT     == << o("from_static", 1, 1, 0, <<>>), o("truncate", 1, 0, 4, <<>>) >>                          \* static below 16
SeedStatic16    == << o("from_static", 1, 1, 0, <<>>), o("truncate", 1, 0, 16, <<>>) >>                         \* static cut to exactly the inline size
SeedStaticSh    == << o("from_static", 1, 1, 0, <<>>), o("clone", 2, 1, 0, <<>>) >>
SeedInline15    == << o("from_str", 1, 0, 0, A15) >>
SeedInline16    == << o("from_str", 1, 0, 0, A15 \o <<112>>) >>
SeedInline16m   == << o("from_str", 1, 0, 0, M16) >>
SeedInlineMix   == << o("from_str", 1, 0, 0, <<97>> \o E2 \o U3 \o G4) >>
cSeedsAll == { SeedStatic16, SeedHeapUnique, SeedHeapShared, SeedHeapSharedT, SeedHeapSharedM, SeedHeapOver, SeedHeapOverSh, SeedHeapShort, SeedStatic,
               SeedStaticT, SeedStaticSh, SeedInline15, SeedInline16, SeedInline16m, SeedInlineMix, <<>> }
cSeedsShared == { SeedHeapShared, SeedHeapSharedT, SeedHeapOverSh, SeedStaticSh }
cSeedsIdx == { SeedHeapSharedT, SeedHeapSharedM, SeedHeapOver, SeedStatic, SeedInline16m, SeedInlineMix,
               << o("from_str", 1, 0, 0, M22) >>, << o("from_static", 1, 1, 0, <<>>), o("clone", 2, 1, 0, <<>>) >> }

\* ---- C09 / C20: every possible final byte of a full (16-byte) inline text
P15 == <<97,98,99,100,101,102,103,104,105,106,107,108,109,110,111>>
P14 == SubSeq(P15, 1, 14)
cFinalByteTexts == {P15 \o <<b>> : b \in 0..127} \cup {P14 \o <<195, b>> : b \in 128..191}
cStrFinal == cFinalByteTexts \cup { <<97>> }
cOpsFinal == {"from_str", "pop", "push_str", "truncate", "clear", "clone", "remove", "drop"}
\* ---- C17: the same text behind different representations (pairs / triples of handles)
SeedPairOver   == << o("from_str", 1, 0, 0, A17), o("with_capacity", 2, 0, 40, <<>>), o("push_str", 2, 0, 0, A17) >>          \* exact vs over-allocated heap
SeedPairShort  == << o("from_str", 1, 0, 0, A17), o("truncate", 1, 0, 3, <<>>), o("from_str", 2, 0, 0, <<97,98,99>>) >>       \* heap len 3 vs inline
SeedPairStatic == << o("from_static", 1, 1, 0, <<>>), o("truncate", 1, 0, 6, <<>>), o("from_str", 2, 0, 0, SubSeq(St20, 1, 6)) >> \* static prefix vs inline
SeedPairPop    == << o("from_str", 1, 0, 0, <<97,98,99,100>>), o("pop", 1, 0, 0, <<>>), o("from_str", 2, 0, 0, <<97,98,99>>) >>  \* inline with a stale byte vs fresh
SeedPairStatH  == << o("from_static", 1, 1, 0, <<>>), o("from_str", 2, 0, 0, St20) >>                                         \* static vs heap, 20 bytes
SeedTripleSh   == << o("from_str", 1, 0, 0, M22), o("clone", 2, 1, 0, <<>>), o("from_str", 3, 0, 0, M22) >>                   \* shared vs unique
SeedTripleTr   == << o("from_str", 1, 0, 0, M22), o("clone", 2, 1, 0, <<>>), o("truncate", 2, 0, 6, <<>>), o("from_str", 3, 0, 0, SubSeq(M22, 1, 6)) >>
SeedPair16     == << o("from_str", 1, 0, 0, M16), o("with_capacity", 2, 0, 17, <<>>), o("push_str", 2, 0, 0, M16) >>           \* 16 bytes inline vs heap
\* different texts that agree in their first 8 / 15 bytes (what a word-at-a-time or pointer-looking comparison would look at)
A8 == <<97,98,99,100,101,102,103,104>>
SeedPairPrefix   == << o("from_str", 1, 0, 0, A8 \o <<49>>), o("from_str", 2, 0, 0, A8 \o <<50>>), o("from_str", 3, 0, 0, A8 \o <<97, 97>>) >>
SeedPairPrefix16 == << o("from_str", 1, 0, 0, A15 \o <<120>>), o("from_str", 2, 0, 0, A15 \o <<121>>), o("from_str", 3, 0, 0, A15 \o <<120, 120>>) >>
\* two static handles with equal text at different addresses (needs Statics <- cStatics3)
SeedPairStat2  == << o("from_static", 1, 1, 0, <<>>), o("from_static", 2, 3, 0, <<>>) >>
SeedPairStatTr == << o("from_static", 1, 1, 0, <<>>), o("from_static", 2, 2, 0, <<>>), o("truncate", 2, 0, 20, <<>>) >>
SeedPairStatTr2 == << o("from_static", 1, 2, 0, <<>>), o("truncate", 1, 0, 17, <<>>), o("from_static", 2, 3, 0, <<>>), o("truncate", 2, 0, 17, <<>>) >>
cSeedsPairs == { SeedPairStat2, SeedPairStatTr, SeedPairStatTr2, SeedPairPrefix, SeedPairPrefix16, SeedPairOver, SeedPairShort, SeedPairStatic, SeedPairPop, SeedPairStatH, SeedTripleSh, SeedTripleTr, SeedPair16 }
cOpsPairs == {"compare", "push_str", "pop", "clone", "truncate", "drop", "clear"}
SeedTriple == << o("from_str", 1, 0, 0, M22), o("clone", 2, 1, 0, <<>>), o("clone", 3, 1, 0, <<>>), o("truncate", 3, 0, 6, <<>>) >>   \* three holders, one shorter
cSeeds3 == cSeedsAll \cup cSeedsPairs \cup { SeedTriple }
cSeedsShrink == { SeedHeapOver, SeedHeapOverSh, SeedHeapShort, SeedHeapUnique, SeedHeapShared, SeedHeapSharedT, SeedStatic, SeedInline15,
                  << o("with_capacity", 1, 0, 60, <<>>), o("push_str", 1, 0, 0, A17) >>,
                  << o("with_capacity", 1, 0, 60, <<>>), o("push_str", 1, 0, 0, A17), o("clone", 2, 1, 0, <<>>) >>,
                  << o("with_capacity", 1, 0, 30, <<>>), o("push_str", 1, 0, 0, <<97>>) >> }
cCapsShrink == {0, 1, 15, 16, 17, 18, 21, 22, 23, 29, 30, 31, 39, 40, 41, 59, 60, 61, 100, BIG, TOOLONG}
cOpsShrink == {"shrink_to", "reserve", "push_str", "pop", "clone", "drop"}
=============================================================================
