SPECIFICATION HSpec
INVARIANT CountsNat
POSTCONDITION HConsumed
CHECK_DEADLOCK FALSE
