CONSTANTS
  T = {1,2,3}
  Configs <- cLend2
  Variant = "load"
  VariantE = "load"
  OrdCloneInc = "Relaxed"
  OrdDropDec = "Release"
  OrdDropFence = "Acquire"
  OrdUniqueLoad = "Acquire"
  OrdProbeDec = "Release"
  OrdProbeInc = "Acquire"
SPECIFICATION Spec
VIEW View
INVARIANTS SafeCex NoLeakAtEnd CountMatches EmitDone
CHECK_DEADLOCK FALSE
