CONSTANTS
  MaxLen8 = 2
  MaxLen16 = 1
  Mode = "u8all"
SPECIFICATION Spec
INVARIANTS Emit Sane
CHECK_DEADLOCK FALSE
