CONSTANTS
  NH = 2
  MaxBufs = 3
  Statics <- cStatics
  OpKinds <- cOpsCore
  StrArgs <- cStrS3
  CharArgs <- cChars
  Caps = {0, 17, 30}
  IdxMode = "few"
  RetainPats <- cRetain
  ItemSeqs <- cItems
  Hints = {0}
  RawArgs <- cRawNone
  U16Args <- cU16None
  FailMode = 0
  PanicMode = 0
  Seeds <- cSeedsEmpty
  MaxSteps = 3
SPECIFICATION Spec
VIEW View
INVARIANTS ModelTypeOK NoUninitRead OwnInv
PROPERTIES AllSteps Refines
ACTION_CONSTRAINT Emit
CHECK_DEADLOCK FALSE
