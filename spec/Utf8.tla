------------------------------- MODULE Utf8 -------------------------------
(* Byte-level UTF-8 facts used by every other module.  Texts are sequences
   of integers 0..255.  Nothing here looks at std or at the crate: validity
   is written from the Unicode standard's well-formed byte sequence table
   (Table 3-7), boundaries from the definition of a continuation byte.   *)
EXTENDS Integers, Sequences

Max(a, b) == IF a >= b THEN a ELSE b
Min(a, b) == IF a <= b THEN a ELSE b

IsCont(b) == b >= 128 /\ b < 192

\* str::is_char_boundary(i): 0 and len are boundaries, anything past len is not
IsBoundary(bs, i) ==
  \/ i = 0
  \/ i = Len(bs)
  \/ (i > 0 /\ i < Len(bs) /\ ~IsCont(bs[i + 1]))

WidthOfLead(b) == IF b < 128 THEN 1 ELSE IF b < 224 THEN 2 ELSE IF b < 240 THEN 3 ELSE 4

\* 0-based offset at which the last character of a non-empty valid text starts
\* (total: on bytes that are not valid UTF-8 it still returns an offset below the length)
LastCharStart(bs) ==
  LET n == Len(bs)
      C == {i \in Max(0, n - 4)..(n - 1) : ~IsCont(bs[i + 1]) /\ \A j \in (i + 1)..(n - 1) : IsCont(bs[j + 1])} IN
  IF C = {} THEN n - 1 ELSE CHOOSE i \in C : TRUE

\* Well-formed UTF-8 (Unicode 15, Table 3-7).  Width of the well-formed
\* sequence starting at offset i (0-based), or 0 if there is none.
WfWidth(bs, i) ==
  LET n  == Len(bs)
      b0 == bs[i + 1]
      In(k, lo, hi) == i + k < n /\ bs[i + k + 1] >= lo /\ bs[i + k + 1] <= hi
  IN  IF b0 < 128 THEN 1
      ELSE IF b0 >= 194 /\ b0 <= 223 THEN (IF In(1, 128, 191) THEN 2 ELSE 0)
      ELSE IF b0 = 224 THEN (IF In(1, 160, 191) /\ In(2, 128, 191) THEN 3 ELSE 0)
      ELSE IF (b0 >= 225 /\ b0 <= 236) \/ b0 = 238 \/ b0 = 239
           THEN (IF In(1, 128, 191) /\ In(2, 128, 191) THEN 3 ELSE 0)
      ELSE IF b0 = 237 THEN (IF In(1, 128, 159) /\ In(2, 128, 191) THEN 3 ELSE 0)
      ELSE IF b0 = 240 THEN (IF In(1, 144, 191) /\ In(2, 128, 191) /\ In(3, 128, 191) THEN 4 ELSE 0)
      ELSE IF b0 >= 241 /\ b0 <= 243
           THEN (IF In(1, 128, 191) /\ In(2, 128, 191) /\ In(3, 128, 191) THEN 4 ELSE 0)
      ELSE IF b0 = 244 THEN (IF In(1, 128, 143) /\ In(2, 128, 191) /\ In(3, 128, 191) THEN 4 ELSE 0)
      ELSE 0

RECURSIVE ValidFrom(_, _)
ValidFrom(bs, i) ==
  IF i >= Len(bs) THEN TRUE
  ELSE LET w == WfWidth(bs, i) IN IF w = 0 THEN FALSE ELSE ValidFrom(bs, i + w)
ValidUtf8(bs) == (\A i \in 1..Len(bs) : bs[i] >= 0 /\ bs[i] <= 255) /\ ValidFrom(bs, 0)

\* the characters of a valid text, as a sequence of byte sequences
RECURSIVE CharsFrom(_, _)
CharsFrom(bs, i) ==
  IF i >= Len(bs) THEN <<>>
  ELSE LET w == Min(WidthOfLead(bs[i + 1]), Len(bs) - i) IN <<SubSeq(bs, i + 1, i + w)>> \o CharsFrom(bs, i + w)
Chars(bs) == CharsFrom(bs, 0)

RECURSIVE Concat(_)
Concat(ss) == IF ss = <<>> THEN <<>> ELSE Head(ss) \o Concat(Tail(ss))

\* UTF-8 encoding of a Unicode scalar value
Enc(cp) ==
  IF cp < 128 THEN <<cp>>
  ELSE IF cp < 2048 THEN <<192 + (cp \div 64), 128 + (cp % 64)>>
  ELSE IF cp < 65536 THEN <<224 + (cp \div 4096), 128 + ((cp \div 64) % 64), 128 + (cp % 64)>>
  ELSE <<240 + (cp \div 262144), 128 + ((cp \div 4096) % 64), 128 + ((cp \div 64) % 64), 128 + (cp % 64)>>

IsPrefix(a, b) == Len(a) <= Len(b) /\ SubSeq(b, 1, Len(a)) = a
=============================================================================
